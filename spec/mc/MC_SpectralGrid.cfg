CONSTANTS MaxN = 40  KS <- MCKS
SPECIFICATION Spec
INVARIANTS ChebBudget ChebBounded ClosedForm
CHECK_DEADLOCK FALSE
