---- MODULE MC_Excitation ----
(* All frame sequences over a small set of periods: the pitch laws of C07 as invariants of the machine.
   q = Q, fp = frame period; periods are P/Q samples, P in Periods (0 = unvoiced frame). *)
EXTENDS Excitation, TLC
CONSTANTS Q, FP, Periods, MaxFrames
VARIABLES s, frame, i, target, sinceLast, steady, lastGap, npulse, nsamp, prevp
vars == <<s, frame, i, target, sinceLast, steady, lastGap, npulse, nsamp, prevp>>
U == Q * FP
Init == /\ s = Zero /\ frame = 0 /\ i = FP /\ target = 0 /\ sinceLast = 0 /\ steady = FALSE /\ lastGap = 0
        /\ npulse = 0 /\ nsamp = 0 /\ prevp = 0
\* begin a new frame (after FP samples of the previous one)
NewFrame == /\ i = FP /\ frame < MaxFrames
            /\ \E p \in Periods :
                 /\ s' = Start(IF frame = 0 THEN s ELSE End(s, target), p * FP, FP)
                 /\ target' = p * FP /\ prevp' = target
                 \* steady = constant F0: the period of this frame equals that of the two frames before it, so no glide is in
                 \* progress; impulses are counted from the first steady frame on
                 /\ steady' = (p # 0 /\ p * FP = target /\ target = prevp /\ frame > 1)
                 /\ (IF steady /\ p # 0 /\ p * FP = target /\ target = prevp THEN UNCHANGED <<npulse, nsamp>> ELSE npulse' = 0 /\ nsamp' = 0)
            /\ frame' = frame + 1 /\ i' = 0 /\ UNCHANGED <<sinceLast, lastGap>>
OneSample == /\ i < FP
             /\ \E o \in Sample(s, U) :
                  /\ s' = o.s
                  /\ IF o.k = "p" THEN lastGap' = sinceLast + 1 /\ sinceLast' = 0 /\ npulse' = npulse + 1
                     ELSE lastGap' = lastGap /\ sinceLast' = sinceLast + 1 /\ npulse' = npulse
             /\ i' = i + 1 /\ nsamp' = nsamp + 1 /\ UNCHANGED <<frame, target, steady, prevp>>
Next == NewFrame \/ OneSample
Spec == Init /\ [][Next]_vars
\* T0 = target / U samples.  With constant F0, consecutive impulses are floor(T0) or ceil(T0) samples apart
Floor(a, b) == a \div b
Ceil(a, b) == (a + b - 1) \div b
\* (the implementation's T0 is an f64 next to the exact value: at an integer T0 either neighbour may be the floor / ceiling,
\*  which is what the tie branching of Sample produces; hence the infinitesimal widening target -+ 1)
Spacing == (steady /\ npulse >= 2 /\ sinceLast = 0 /\ i > 0) => lastGap >= Floor(target - 1, U) /\ lastGap <= Ceil(target + 1, U)
\* mean power 1: the number of impulses in N samples is N / T0 up to one period:  |npulse T0 - N| <= T0
CountLaw == (steady /\ nsamp > 0) => (npulse * target - nsamp * U <= target + U /\ nsamp * U - npulse * target <= target + U)
\* during a glide the period is the linear interpolant between the previous and the new period, reached at frame end
Glide == (s.pcur # 0 /\ prevp # 0 /\ target # 0 /\ i <= FP /\ frame > 1) => s.pcur * FP = prevp * FP + i * (target - prevp)
\* after an unvoiced frame the first voiced sample fires an impulse (the counter restarts)
Restart == (prevp = 0 /\ target # 0 /\ i = 1) => sinceLast = 0
\* pulse height squared is the current period: never zero or negative while voiced
PeriodPositive == s.pcur >= 0
====
