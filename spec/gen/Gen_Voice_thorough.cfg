CONSTANTS NStates = {1, 2, 3, 7}  Shapes = {0, 1, 2, 3, 4, 5}  Salts = {0, 1, 2}  Stages = {0, 1, 2}  WinSets = {1, 2, 3, 4, 5, 6, 7, 8}
SPECIFICATION Spec
INVARIANT Emit
CHECK_DEADLOCK FALSE
