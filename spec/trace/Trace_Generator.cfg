CONSTANTS MaxTotal = 100000  MaxBuf = 1
SPECIFICATION TSpec
INVARIANTS PrefixOfOneShot CursorExact FinishCompletes SuffixExact
POSTCONDITION Accepted
CHECK_DEADLOCK FALSE
