---- MODULE Trace_Mlpg ----
(* C05: every recorded MlpgAdjust::create output must satisfy Mlpg!Law (normal equations, no-data marker). *)
EXTENDS Mlpg, Json, IOUtils
Rec == ndJsonDeserialize(IOEnv.TRACE)
VARIABLE l
Init == l = 1
Step == l <= Len(Rec) /\ Rec[l].ev = "mlpg" /\ Law(Rec[l]) /\ l' = l + 1
Spec == Init /\ [][Step]_l
Accepted == IF TLCGet("stats").diameter - 1 = Len(Rec) THEN TRUE
            ELSE Print(<<"REJECT at", TLCGet("stats").diameter>>, FALSE)
====
