CONSTANTS D = 4  N = {1, 2}  Means = {1, 2, 3, 5, 6, 7, 9, 10, 12}  Varis = {1, 4, 9}  MaxT = 14
SPECIFICATION Spec
INVARIANTS Terminates SumLaw Floor1 NoVanish SpeedLaw Monotone Speed1
CHECK_DEADLOCK FALSE
