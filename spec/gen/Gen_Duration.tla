---- MODULE Gen_Duration ----
(* Emits replay cases for DurationEstimator::create (C08) and Labels::new + create_with_alignment (C09):
   inputs plus the set of results the specification allows. *)
EXTENDS Duration, TLC, Json
CONSTANTS N, Means, Varis, NL, NState, ParamSets, Mode
EndsFull == {-4, 0, 6, 10, 13, 24, 40}
StartsFull == {-4, 0, 6, 24}
EndsSmall == {-4, 0, 6, 13, 24}
StartsSmall == {-4, 6}
CONSTANTS Ends, Starts
E == 4
Speeds == << <<1,4>>, <<1,2>>, <<3,4>>, <<1,1>>, <<5,4>>, <<3,2>>, <<2,1>>, <<4,1>>, <<8,1>>, <<50,1>> >>
PM == << <<6, 3, 9, 5, 12, 2>>, <<4, 4, 4, 4, 4, 4>>, <<10, 1, 7, 2, 3, 11>> >>
PV == << <<4, 1, 9, 4, 1, 4>>, <<4, 4, 4, 4, 4, 4>>, <<1, 9, 4, 4, 9, 1>> >>
VARIABLES m, v, k, times, ns, phase
vars == <<m, v, k, times, ns, phase>>
Seqs(S, n) == [1..n -> S]
Init == m = <<>> /\ v = <<>> /\ k = 0 /\ times = <<>> /\ ns = 1 /\ phase = 0
NextCreate == \/ phase = 0 /\ \E n \in N : \E mm \in Seqs(Means, n) : m' = mm /\ phase' = 1 /\ UNCHANGED <<v, k, times, ns>>
              \/ phase = 1 /\ \E vv \in Seqs(Varis, Len(m)) : \E kk \in 1..Len(Speeds) :
                    v' = vv /\ k' = kk /\ phase' = 2 /\ UNCHANGED <<m, times, ns>>
NextAlign == \/ phase = 0 /\ \E n \in NL, p \in ParamSets, s \in NState :
                    /\ times' = [i \in 1..n |-> <<-4, -4>>] /\ ns' = s /\ phase' = 1 /\ k' = 0
                    /\ m' = SubSeq(PM[p], 1, n * s) /\ v' = SubSeq(PV[p], 1, n * s)
             \/ phase = 1 /\ \E t \in [1..Len(times) -> Starts \X Ends] : times' = t /\ phase' = 2 /\ UNCHANGED <<m, v, k, ns>>
Next == IF Mode = "create" THEN NextCreate ELSE NextAlign
Spec == Init /\ [][Next]_vars
SetSeq(S) == CHOOSE s \in [1..Cardinality(S) -> S] : \A i, j \in 1..Cardinality(S) : i # j => s[i] # s[j]
EmitCreate == PrintT(<<"CASE", ToJson([kind |-> "create", D |-> D, m |-> m, v |-> v, p |-> Speeds[k][1], q |-> Speeds[k][2],
                                       set |-> SetSeq(Create(m, v, Speeds[k][1], Speeds[k][2]))])>>)
EmitAlign == LET filled == FillTimes(times)
                 g == Align(m, v, ns, [i \in 1..Len(times) |-> filled[i][2]], E)
             IN PrintT(<<"CASE", ToJson([kind |-> "align", D |-> D, E |-> E, nstate |-> ns, m |-> m, v |-> v, times |-> times,
                    filled |-> filled,
                    groups |-> [i \in 1..Len(g) |-> [lo |-> g[i].lo, hi |-> g[i].hi, known |-> g[i].known, set |-> SetSeq(g[i].set)]]])>>)
Emit == phase = 2 => IF Mode = "create" THEN EmitCreate ELSE EmitAlign
====
