//! C06 / C13 / C14: pulse responses of the public Vocoder, measured on frequency grids.
//! Trusted measurement functions: dft_logmag, energy; trusted actuation: unwarp, acos.
use crate::util::*;
use jbonsai::vocoder::Vocoder;
use serde_json::{json, Value};
use std::f64::consts::PI;

/// physical frequency whose all-pass-warped image is theta
pub fn unwarp(theta: f64, alpha: f64) -> f64 {
    theta - 2.0 * (alpha * theta.sin() / (1.0 + alpha * theta.cos())).atan()
}
pub fn dft_logmag(h: &[f64], w: f64) -> f64 {
    let (mut re, mut im) = (0.0f64, 0.0f64);
    for (n, x) in h.iter().enumerate() {
        let ph = w * n as f64;
        re += x * ph.cos();
        im -= x * ph.sin();
    }
    (re * re + im * im).sqrt().ln()
}
pub fn energy(h: &[f64]) -> f64 {
    h.iter().map(|x| x * x).sum()
}

/// Response to one excitation pulse, taken from the third 20 Hz period (so that the coefficient interpolation of
/// the first frame has settled) and normalised by the pulse height.  Pulse positions and heights are read from a
/// twin run of the same vocoder with an all-zero spectrum (identity filter).
pub fn pulse_response(nmcp: usize, stage: usize, log_gain: bool, rate: usize, alpha: f64, beta: f64, spectrum: &[f64]) -> Result<Vec<f64>, String> {
    pulse_responses(nmcp, stage, log_gain, rate, alpha, beta, spectrum).map(|(settled, _)| settled)
}

/// (response in the third period, response to the very first pulse - filter initially at rest, nothing overlapping)
pub fn pulse_responses(nmcp: usize, stage: usize, log_gain: bool, rate: usize, alpha: f64, beta: f64, spectrum: &[f64]) -> Result<(Vec<f64>, Vec<f64>), String> {
    pulse_responses_step(nmcp, stage, log_gain, rate, alpha, beta, spectrum, 0.0)
}

/// The same, but the first of the three frames carries the spectrum with its 0th coefficient raised by `c0_step` (a pure level
/// step between the first and the second frame; the third period, where the response is taken, is two frames later).
#[allow(clippy::too_many_arguments)]
pub fn pulse_responses_step(nmcp: usize, stage: usize, log_gain: bool, rate: usize, alpha: f64, beta: f64, spectrum: &[f64], c0_step: f64) -> Result<(Vec<f64>, Vec<f64>), String> {
    let t0 = rate / 20;
    guarded(|| {
        let run = |stage: usize, lg: bool, beta: f64, sp: &[f64]| -> Vec<f64> {
            let mut v = Vocoder::new(nmcp, 0, stage, lg, rate, alpha, beta, 1.0, t0);
            let mut out = Vec::with_capacity(3 * t0);
            for k in 0..3 {
                let mut buf = vec![0.0; t0];
                if k == 0 && c0_step != 0.0 && !sp.is_empty() {
                    let mut sp1 = sp.to_vec();
                    sp1[0] += c0_step;
                    v.synthesize(20f64.ln(), &sp1, &[], &mut buf);
                } else {
                    v.synthesize(20f64.ln(), sp, &[], &mut buf);
                }
                out.extend_from_slice(&buf);
            }
            out
        };
        let twin = run(0, false, 0.0, &vec![0.0; nmcp]);
        let pulses: Vec<usize> = (0..twin.len()).filter(|i| twin[*i] != 0.0).collect();
        if pulses.len() < 3 {
            // (inside `guarded`: reported as a panic event of the code under test, not as a tool error)
            panic!("a 20 Hz voiced run of three periods contains fewer than three excitation pulses");
        }
        let start = pulses[2];
        let end = pulses.get(3).copied().unwrap_or(twin.len());
        let y = run(stage, log_gain, beta, spectrum);
        let settled: Vec<f64> = y[start..end].iter().map(|x| x / twin[start]).collect();
        let first: Vec<f64> = y[pulses[0]..pulses[1]].iter().map(|x| x / twin[pulses[0]]).collect();
        (settled, first)
    })
}

fn q20(x: f64) -> i64 {
    let v = (x * 1048576.0).round();
    if v.is_finite() { v.clamp(-2.0e9, 2.0e9) as i64 } else { 2_000_000_000 }
}

fn grid33(h: &[f64], alpha: f64) -> Vec<i64> {
    (-16..=16).map(|k| q20(dft_logmag(h, unwarp((k as f64 / 16.0).acos(), alpha)))).collect()
}

pub fn run(cases_path: &str, out_path: &str) {
    let cases = read_jsonl(cases_path);
    let evs = par_map(&cases, |_, c| -> Value {
        let alpha = vi(&c["alpha"]) as f64 / 1000.0;
        let rate = vu(&c["rate"]);
        match vs(&c["kind"]) {
            "mcep" | "post" => {
                let c64: Vec<i64> = va(&c["c64"]).iter().map(vi).collect();
                let cep: Vec<f64> = c64.iter().map(|x| *x as f64 / 64.0).collect();
                let beta = vi(&c["beta8"]) as f64 / 8.0;
                let (h0, first0) = match pulse_responses(cep.len(), 0, false, rate, alpha, 0.0, &cep) {
                    Ok(h) => h,
                    Err(p) => return json!({"ev": "panic", "in": "vocoder", "msg": p, "input": c}),
                };
                if vs(&c["kind"]) == "mcep" {
                    // without postfilter the very first pulse of a fresh vocoder must realise the spectrum as well
                    return json!({"ev": "grid", "c64": c64, "meas": grid33(&h0, alpha), "meas1": grid33(&first0, alpha), "alpha": c["alpha"], "rate": rate});
                }
                let hb = match pulse_response(cep.len(), 0, false, rate, alpha, beta, &cep) {
                    Ok(h) => h,
                    Err(p) => return json!({"ev": "panic", "in": "vocoder(beta)", "msg": p, "input": c}),
                };
                // odd cases: the first frame is louder by half a neper (same shape) - the postfilter acts on every frame's own
                // coefficients, so the third period must look exactly as without the step
                let step = if c64.iter().sum::<i64>().rem_euclid(2) == 1 { 0.5 } else { 0.0 };
                let (h0, hb) = if step != 0.0 {
                    match (pulse_responses_step(cep.len(), 0, false, rate, alpha, 0.0, &cep, step), pulse_responses_step(cep.len(), 0, false, rate, alpha, beta, &cep, step)) {
                        (Ok(a), Ok(b)) => (a.0, b.0),
                        (Err(p), _) | (_, Err(p)) => return json!({"ev": "panic", "in": "vocoder(step)", "msg": p, "input": c}),
                    }
                } else {
                    (h0, hb)
                };
                let ratio = energy(&hb) / energy(&h0);
                json!({"ev": "post", "step": step != 0.0, "c64": c64, "beta8": c["beta8"], "meas0": grid33(&h0, alpha), "measb": grid33(&hb, alpha),
                       "eratio_ppm": if ratio.is_finite() { (ratio * 1e6).round().min(2.0e9) as i64 } else { -1 },
                       "changed": !bits_eq(&h0, &hb), "biteq": bits_eq(&h0, &hb), "alpha": c["alpha"], "rate": rate})
            }
            "lsp" => {
                let ks: Vec<i64> = va(&c["ks"]).iter().map(vi).collect();
                let m = ks.len();
                let stage = vu(&c["stage"]);
                let lg = vb(&c["loggain"]);
                let g = vi(&c["gain8"]) as f64 / 8.0;
                let lnk = if lg { g } else { g.ln() };
                let mut sp = vec![g];
                sp.extend(ks.iter().map(|k| (*k as f64 / 8.0).acos()));
                let (h, first) = match pulse_responses(m + 1, stage, lg, rate, alpha, 0.0, &sp) {
                    Ok(h) => h,
                    Err(p) => return json!({"ev": "panic", "in": "vocoder(lsp)", "msg": p, "input": c}),
                };
                let finite = h.iter().all(|x| x.is_finite()) && first.iter().all(|x| x.is_finite());
                // "decaying" is judged as boundedness over successive periods: a stable filter driven by three identical pulses
                // can at most superpose three tails (energy <= 9x that of the first period, whatever its Q and however long it
                // rings), an unstable one grows geometrically.  (A cascade of high-Q sections peaks late - t^2 e^(-t/tau) - so
                // comparing the ends of one period, as earlier versions did, is wrong.)
                let decay = finite && energy(&h) <= 25.0 * energy(&first).max(1e-300);
                // reference ln|H| = ln K - (s/2) (ln N - (m+2) ln 4) from the specification's exact N
                let refs: Vec<f64> = va(&c["grid"]).iter().map(|p| lnk - 0.5 * stage as f64 * ((vi(&p[1]) as f64).ln() - (m as f64 + 2.0) * 4f64.ln())).collect();
                let peak = refs.iter().cloned().fold(f64::NEG_INFINITY, f64::max);
                // truncation floor: the response is cut after one 20 Hz period; the L1 norm of its second half bounds
                // (for a decaying response) what is missing, so points less than ~8 nepers above it are not measurable
                let tail: f64 = h[h.len() / 2..].iter().map(|x| x.abs()).sum();
                let noise = if tail > 0.0 && finite { ((peak - tail.ln()) * 1e3).round().clamp(-2.0e9, 2.0e9) as i64 } else { 2_000_000_000 };
                let mut dev = Vec::new();
                let mut dev1 = Vec::new();
                let mut rel = Vec::new();
                let q6 = |d: f64| if d.is_finite() { d.round().clamp(-2.0e9, 2.0e9) as i64 } else { 2_000_000_000 };
                for (p, r) in va(&c["grid"]).iter().zip(&refs) {
                    let theta = (vi(&p[0]) as f64 / 8.0).acos();
                    let meas = if finite { dft_logmag(&h, unwarp(theta, alpha)) } else { f64::NAN };
                    let meas1 = if finite { dft_logmag(&first, unwarp(theta, alpha)) } else { f64::NAN };
                    dev.push(q6((meas - r) * 1e6));
                    dev1.push(q6((meas1 - r) * 1e6));
                    rel.push(((peak - r) * 1e3).round() as i64);
                }
                // truncation floor of the first-pulse response (nothing precedes it: only its own cut-off tail is missing)
                let tail1: f64 = first[first.len() / 2..].iter().map(|x| x.abs()).sum();
                let noise1 = if tail1 > 0.0 && finite { ((peak - tail1.ln()) * 1e3).round().clamp(-2.0e9, 2.0e9) as i64 } else { 2_000_000_000 };
                json!({"ev": "lsp", "m": m, "stage": stage, "dev": dev, "dev1": dev1, "rel": rel, "noise": noise, "noise1": noise1, "finite": finite, "decay": decay,
                       "ks": ks, "alpha": c["alpha"], "rate": rate, "loggain": lg, "gain8": c["gain8"]})
            }
            "lspbeta" => {
                // C01 on the LSP path with the formant postfilter: sixty 20 Hz periods of one constant frame; the output must stay finite and
                // must not grow from period to period (a stable filter driven periodically settles into a periodic response)
                let ks: Vec<i64> = va(&c["ks"]).iter().map(vi).collect();
                let m = ks.len();
                let stage = vu(&c["stage"]);
                let lg = vb(&c["loggain"]);
                let g = vi(&c["gain8"]) as f64 / 8.0;
                let beta = vi(&c["beta8"]) as f64 / 8.0;
                let mut sp = vec![g];
                sp.extend(ks.iter().map(|k| (*k as f64 / 8.0).acos()));
                let t0 = rate / 20;
                let r = guarded(|| {
                    let mut v = Vocoder::new(m + 1, 0, stage, lg, rate, alpha, beta, 1.0, t0);
                    let mut e = Vec::with_capacity(60);
                    let mut finite = true;
                    for _ in 0..60 {
                        let mut buf = vec![0.0; t0];
                        v.synthesize(20f64.ln(), &sp, &[], &mut buf);
                        finite &= buf.iter().all(|x| x.is_finite());
                        e.push(energy(&buf));
                    }
                    (finite, e)
                });
                match r {
                    Ok((finite, e)) => {
                        let early = e[1].max(e[2]).max(1e-300);
                        let late = e[3..].iter().cloned().fold(0.0f64, f64::max);
                        let growth = if finite && late.is_finite() { (10.0 * (late / early).log10()).round().clamp(-2.0e9, 2.0e9) as i64 } else { 2_000_000_000 };
                        json!({"ev": "lspfin", "m": m, "stage": stage, "ks": ks, "alpha": c["alpha"], "rate": rate, "beta8": c["beta8"], "loggain": lg,
                               "finite": finite, "growth_db": growth, "silent": late == 0.0})
                    }
                    Err(p) => json!({"ev": "panic", "in": "vocoder(lsp, beta)", "msg": p, "input": c}),
                }
            }
            k => die(&format!("unknown spectral case kind {}", k)),
        }
    });
    let mut out = Out::create(out_path);
    for e in evs {
        out.line(&e);
    }
    out.finish();
}
