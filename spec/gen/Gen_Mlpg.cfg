CONSTANTS NStates = {1, 2, 3}  MaxDur = 2  VLens = {1}  Salts = {0, 1}  WinSets = {1, 2, 3, 4, 5, 6, 7, 8, 9}
SPECIFICATION Spec
INVARIANTS Structure Emit
CHECK_DEADLOCK FALSE
