CONSTANTS MaxN = 40  KS <- MCKS
SPECIFICATION Spec
INVARIANTS ChebBudget ChebBounded ClosedForm HalfGrid
CHECK_DEADLOCK FALSE
