//! Small shared utilities: PRNG, digests, panic capture, JSON I/O.
use serde_json::Value;
use std::cell::RefCell;
use std::io::{BufRead, Write};
use std::panic::{catch_unwind, AssertUnwindSafe};

/// splitmix64 / xorshift PRNG (deterministic, seedable; no external crate).
pub struct Rng(pub u64);
impl Rng {
    pub fn new(seed: u64) -> Self {
        Rng(seed.wrapping_mul(0x9E3779B97F4A7C15).wrapping_add(0x1234_5678_9abc_def1))
    }
    pub fn next_u64(&mut self) -> u64 {
        self.0 = self.0.wrapping_add(0x9E3779B97F4A7C15);
        let mut z = self.0;
        z = (z ^ (z >> 30)).wrapping_mul(0xBF58476D1CE4E5B9);
        z = (z ^ (z >> 27)).wrapping_mul(0x94D049BB133111EB);
        z ^ (z >> 31)
    }
    /// uniform in [0, n)
    pub fn below(&mut self, n: usize) -> usize {
        if n == 0 { 0 } else { (self.next_u64() % n as u64) as usize }
    }
    /// uniform integer in [lo, hi]
    pub fn range(&mut self, lo: i64, hi: i64) -> i64 {
        lo + (self.next_u64() % ((hi - lo + 1) as u64)) as i64
    }
    pub fn unit(&mut self) -> f64 {
        (self.next_u64() >> 11) as f64 / (1u64 << 53) as f64
    }
    pub fn uniform(&mut self, lo: f64, hi: f64) -> f64 {
        lo + (hi - lo) * self.unit()
    }
    pub fn chance(&mut self, p: f64) -> bool {
        self.unit() < p
    }
    pub fn pick<'a, T>(&mut self, xs: &'a [T]) -> &'a T {
        &xs[self.below(xs.len())]
    }
}

/// 64-bit FNV-1a digest of the raw bits of a float slice, as 16 hex digits.
pub fn digest(xs: &[f64]) -> String {
    let mut h: u64 = 0xcbf29ce484222325;
    for x in xs {
        for b in x.to_bits().to_le_bytes() {
            h ^= b as u64;
            h = h.wrapping_mul(0x100000001b3);
        }
    }
    // second pass mixing with length so that prefixes differ
    h ^= xs.len() as u64;
    h = h.wrapping_mul(0x100000001b3);
    format!("{:016x}", h)
}

pub fn digest2(xss: &[Vec<f64>]) -> String {
    let mut all: Vec<f64> = Vec::new();
    for r in xss {
        all.extend_from_slice(r);
        all.push(f64::from_bits(0x7ff8_0000_0000_0777));
    }
    digest(&all)
}

thread_local! {
    static LAST_PANIC: RefCell<String> = RefCell::new(String::new());
}

pub fn install_panic_hook() {
    std::panic::set_hook(Box::new(|info| {
        let loc = info
            .location()
            .map(|l| {
                let f = l.file();
                let f = f.rsplit("/src/").next().unwrap_or(f);
                format!("{}:{}", f, l.line())
            })
            .unwrap_or_default();
        let msg = if let Some(s) = info.payload().downcast_ref::<&str>() {
            s.to_string()
        } else if let Some(s) = info.payload().downcast_ref::<String>() {
            s.clone()
        } else {
            "?".to_string()
        };
        LAST_PANIC.with(|p| *p.borrow_mut() = format!("{} @ {}", msg, loc));
    }));
}

/// Run `f`; a panic is returned as Err(message @ file:line).
pub fn guarded<T>(f: impl FnOnce() -> T) -> Result<T, String> {
    match catch_unwind(AssertUnwindSafe(f)) {
        Ok(v) => Ok(v),
        Err(_) => Err(LAST_PANIC.with(|p| p.borrow().clone())),
    }
}

pub fn read_jsonl(path: &str) -> Vec<Value> {
    let f = std::fs::File::open(path).unwrap_or_else(|e| die(&format!("open {}: {}", path, e)));
    std::io::BufReader::new(f)
        .lines()
        .map(|l| l.unwrap())
        .filter(|l| !l.trim().is_empty())
        .map(|l| serde_json::from_str(&l).unwrap_or_else(|e| die(&format!("json: {}", e))))
        .collect()
}

pub struct Out(std::io::BufWriter<std::fs::File>);
impl Out {
    pub fn create(path: &str) -> Self {
        Out(std::io::BufWriter::new(
            std::fs::File::create(path).unwrap_or_else(|e| die(&format!("create {}: {}", path, e))),
        ))
    }
    pub fn line(&mut self, v: &Value) {
        serde_json::to_writer(&mut self.0, v).unwrap();
        self.0.write_all(b"\n").unwrap();
    }
    pub fn finish(mut self) {
        self.0.flush().unwrap();
    }
}

pub fn die(msg: &str) -> ! {
    eprintln!("jbv: tool error: {}", msg);
    std::process::exit(2)
}

pub fn vi(v: &Value) -> i64 {
    v.as_i64().unwrap_or_else(|| die(&format!("expected int, got {}", v)))
}
pub fn vu(v: &Value) -> usize {
    vi(v) as usize
}
pub fn vs(v: &Value) -> &str {
    v.as_str().unwrap_or_else(|| die(&format!("expected string, got {}", v)))
}
pub fn va(v: &Value) -> &Vec<Value> {
    v.as_array().unwrap_or_else(|| die(&format!("expected array, got {}", v)))
}
pub fn vb(v: &Value) -> bool {
    v.as_bool().unwrap_or_else(|| die(&format!("expected bool, got {}", v)))
}
/// dyadic [n,k] -> n / 2^k
pub fn dy(v: &Value) -> f64 {
    let a = va(v);
    let k = vi(&a[1]);
    if k == 99 {
        return -0.0; // the float32 negative zero (see voicegen)
    }
    if k < 0 {
        // decimal fraction n / 10^(-k): both operands are exact doubles, IEEE division rounds correctly, so this is the
        // double nearest to the decimal text (checked against str::parse below)
        let v = vi(&a[0]) as f64 / 10f64.powi(-k as i32);
        let txt = format!("{}e{}", vi(&a[0]), k);
        debug_assert_eq!(txt.parse::<f64>().ok(), Some(v));
        return v;
    }
    vi(&a[0]) as f64 / (1u64 << k as u64) as f64
}

pub const SENTINEL_BITS: u64 = 0x7ff8_dead_beef_0001;
pub fn sentinel() -> f64 {
    f64::from_bits(SENTINEL_BITS)
}
pub fn bits_eq(a: &[f64], b: &[f64]) -> bool {
    a.len() == b.len() && a.iter().zip(b).all(|(x, y)| x.to_bits() == y.to_bits())
}

pub const BUNDLED_VOICE: &str = "/repo/models/hts_voice_nitech_jp_atr503_m001-1.05/nitech_jp_atr503_m001.htsvoice";
pub const CORPUS: &str = "/repo/examples/genji/genji.lab";

pub fn corpus() -> Vec<String> {
    std::fs::read_to_string(CORPUS)
        .unwrap_or_else(|e| die(&format!("corpus: {}", e)))
        .lines()
        .filter(|l| !l.trim().is_empty())
        .map(|l| l.to_string())
        .collect()
}

/// Parallel map preserving order (scoped threads; panics inside `f` must be handled by `f`).
pub fn par_map<T: Sync, R: Send>(items: &[T], f: impl Fn(usize, &T) -> R + Sync) -> Vec<R> {
    let nthreads = std::env::var("VERIF_THREADS").ok().and_then(|s| s.parse().ok()).unwrap_or(12usize).max(1);
    let n = items.len();
    let mut out: Vec<Option<R>> = (0..n).map(|_| None).collect();
    let next = std::sync::atomic::AtomicUsize::new(0);
    let chunks: Vec<Vec<(usize, R)>> = std::thread::scope(|s| {
        let handles: Vec<_> = (0..nthreads.min(n.max(1)))
            .map(|_| {
                s.spawn(|| {
                    let mut local = Vec::new();
                    loop {
                        let i = next.fetch_add(1, std::sync::atomic::Ordering::Relaxed);
                        if i >= n {
                            break;
                        }
                        local.push((i, f(i, &items[i])));
                    }
                    local
                })
            })
            .collect();
        handles.into_iter().map(|h| h.join().unwrap_or_else(|_| die("worker thread died"))).collect()
    });
    for c in chunks {
        for (i, r) in c {
            out[i] = Some(r);
        }
    }
    out.into_iter().map(|o| o.unwrap()).collect()
}
