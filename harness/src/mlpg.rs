//! C05: MlpgAdjust::create on caller-built streams; outputs logged in two limbs of 1e-6 for Trace_Mlpg.
use crate::util::*;
use jbonsai::mlpg_adjust::MlpgAdjust;
use jbonsai::model::voice::window::Window;
use jbonsai::model::{MeanVari, ModelStream, StreamParameter, Windows};
use serde_json::{json, Value};

const NODATA: f64 = -1e10;

fn run_instance(e: &Value) -> Value {
    let vlen = vu(&e["vlen"]);
    let wins: Vec<Window> = va(&e["wins"]).iter().map(|w| Window::new(va(w).iter().map(|c| vi(c) as f64 / 8.0).collect())).collect();
    let windows = Windows::new(wins);
    let n = va(&e["dur"]).len();
    let stream: Vec<(Vec<MeanVari>, f64)> = (0..n)
        .map(|s| {
            let p: Vec<MeanVari> = va(&e["mean8"][s]).iter().zip(va(&e["prec4"][s])).map(|(m, p)| MeanVari(vi(m) as f64 / 8.0, 4.0 / vi(p) as f64)).collect();
            (p, vi(&e["msd8"][s]) as f64 / 8.0)
        })
        .collect();
    let dur: Vec<usize> = va(&e["dur"]).iter().map(vu).collect();
    let thr = vi(&e["thr8"]) as f64 / 8.0;
    let r = guarded(|| {
        let ms = ModelStream { vector_length: vlen, stream: StreamParameter::new(stream), gv: None, windows: &windows };
        MlpgAdjust::new(1.0, thr, ms).create(&dur)
    });
    let mut ev = e.clone();
    let o = ev.as_object_mut().unwrap();
    match r {
        Ok(t) => {
            let nodata: Vec<bool> = t.iter().map(|f| f[0] == NODATA).collect();
            let limbs: Vec<Vec<[i64; 4]>> = t
                .iter()
                .map(|f| {
                    f.iter()
                        .map(|x| {
                            if *x == NODATA || !x.is_finite() {
                                [0, 0, 0, 0]
                            } else {
                                // value x 1000 = l1 + l2/1e3 + l3/1e6 + l4/1e9 exactly to 1e-12: the integer part and the
                                // fraction are converted separately (x * 1e12 would not be exact for |x| > 9e3)
                                let i = x.floor();
                                let f = ((x - i) * 1e12).round() as i64; // 0 ..= 1e12, the subtraction is exact
                                let q = i as i64 * 1_000_000_000_000 + f; // x * 1e12, |x| < 9e6
                                let l1 = q.div_euclid(1_000_000_000);
                                let r = q.rem_euclid(1_000_000_000);
                                [l1, r / 1_000_000, (r / 1000) % 1000, r % 1000]
                            }
                        })
                        .collect()
                })
                .collect();
            o.insert("ev".into(), json!("mlpg"));
            o.insert("traj".into(), json!(limbs));
            o.insert("nodata".into(), json!(nodata));
            o.insert("finite".into(), json!(t.iter().all(|f| f.iter().all(|x| x.is_finite()))));
        }
        Err(p) => {
            o.insert("ev".into(), json!("panic"));
            o.insert("msg".into(), json!(p));
        }
    }
    ev
}

pub fn run(cases_path: &str, out_path: &str) {
    let cases = read_jsonl(cases_path);
    let evs = par_map(&cases, |_, c| run_instance(c));
    let mut out = Out::create(out_path);
    for e in evs {
        out.line(&e);
    }
    out.finish();
}

/// random larger instances inside the property's quantifier (same integer coding)
pub fn record(seed: u64, n: usize, max_states: usize, out_path: &str) {
    let its: Vec<usize> = (0..n).collect();
    let winsets: Vec<Vec<Vec<i64>>> = vec![
        vec![vec![8]],
        vec![vec![8], vec![-4, 0, 4]],
        vec![vec![8], vec![-4, 0, 4], vec![8, -16, 8]],
        vec![vec![8], vec![-2, -4, 0, 4, 2], vec![2, 0, -4, 0, 2]],
        vec![vec![0, 8, 0], vec![-4, 0, 4]],
        vec![vec![8], vec![-2, -4, 0, 4, 2], vec![8, -16, 8]],
        vec![vec![8], vec![-4, 0, 4], vec![2, 0, -4, 0, 2]],
        vec![vec![8], vec![0, -4, 0, 4, 0]],
        vec![vec![8], vec![0, -8, 8], vec![8, -16, 8]],
    ];
    let evs = par_map(&its, |_, it| {
        let mut rng = Rng::new(seed ^ 0x5a ^ ((*it as u64) << 18));
        let ns = 1 + rng.below(max_states);
        let vlen = 1 + rng.below(4);
        let wins = rng.pick(&winsets).clone();
        let nw = wins.len();
        let style = rng.below(4);
        let msd8: Vec<i64> = (0..ns)
            .map(|s| match style {
                0 => 99,                                            // no voicing decision: all voiced
                1 => if rng.chance(0.5) { 5 } else { 3 },           // random pattern
                2 => if s % 5 < 1 + rng.below(2) { 5 } else { 3 },  // short islands
                _ => 3,                                             // all unvoiced
            })
            .collect();
        let e = json!({
            "dur": (0..ns).map(|_| 1 + rng.below(8)).collect::<Vec<_>>(),
            "msd8": msd8, "thr8": 4, "wins": wins, "vlen": vlen,
            "mean8": (0..ns).map(|_| (0..vlen * nw).map(|m| if m < vlen { rng.range(-40, 40) } else { rng.range(-6, 6) }).collect::<Vec<_>>()).collect::<Vec<_>>(),
            "prec4": (0..ns).map(|_| (0..vlen * nw).map(|_| *rng.pick(&[1i64, 2, 3, 4, 5, 6, 8, 12, 16])).collect::<Vec<_>>()).collect::<Vec<_>>(),
        });
        run_instance(&e)
    });
    let mut out = Out::create(out_path);
    for e in evs {
        out.line(&e);
    }
    out.finish();
}
