CONSTANTS NStates = {1, 3}  Shapes = {1, 2, 3, 4, 5}  Salts = {0, 1}  Stages = {0, 2}  WinSets = {1, 6, 8}
SPECIFICATION Spec
INVARIANT Emit
CHECK_DEADLOCK FALSE
