CONSTANTS Threads = {t1, t2, t3}  Utts = {1, 2}  FramesOf <- MCFrames  Hidden = FALSE  MaxCalls = 4
SPECIFICATION FairSpec
PROPERTIES CallsReturn NoCrossTalk OutsGrow
CHECK_DEADLOCK FALSE
