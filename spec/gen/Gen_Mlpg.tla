---- MODULE Gen_Mlpg ----
(* Small MLPG instances: every voicing pattern, the four window sets, durations 1..MaxDur, pseudo-random dyadic
   means and power-of-two variances.  The structural invariants are checked on every instance; the instance is
   emitted for the harness, which returns the real MlpgAdjust::create output for Trace_Mlpg. *)
EXTENDS Mlpg, Json, FiniteSets
CONSTANTS NStates, MaxDur, VLens, Salts, WinSets
VARIABLE e
NoInst == [none |-> TRUE]
W(k) == CASE k = 1 -> << <<8>> >>
          [] k = 2 -> << <<8>>, <<-4, 0, 4>> >>
          [] k = 3 -> << <<8>>, <<-4, 0, 4>>, <<8, -16, 8>> >>
          [] k = 4 -> << <<8>>, <<-2, -4, 0, 4, 2>>, <<2, 0, -4, 0, 2>> >>
          [] k = 5 -> << <<0, 8, 0>>, <<-4, 0, 4>> >>                 \* static window declared with zero-weight neighbours
          [] k = 6 -> << <<8>>, <<-2, -4, 0, 4, 2>>, <<8, -16, 8>> >>     \* the widest window is not the last one
          [] k = 7 -> << <<8>>, <<-4, 0, 4>>, <<2, 0, -4, 0, 2>> >>       \* ... nor the second
          [] k = 8 -> << <<8>>, <<0, -4, 0, 4, 0>> >>                     \* a three-point delta declared with zero outer taps: its span is five
          [] k = 9 -> << <<8>>, <<0, -8, 8>>, <<8, -16, 8>> >>             \* forward difference: a zero tap at one end only
Mix(a, b, c, d) == (a * 7 + b * 13 + c * 5 + d * 3 + a * b)
PrecTab == <<1, 2, 4, 8, 16, 3, 6, 5, 12>>           \* variances 4, 2, 1, 1/2, 1/4 and 4/3, 2/3, 4/5, 1/3 (no binary float holds these)
Inst(n, durs, voiced, wk, vlen, salt) ==
  LET nw == Len(W(wk)) IN
  [dur |-> durs, msd8 |-> [s \in 1..n |-> IF voiced[s] THEN 5 ELSE 3], thr8 |-> 4, wins |-> W(wk), vlen |-> vlen,
   mean8 |-> [s \in 1..n |-> [m \in 1..(vlen * nw) |-> IF m <= vlen THEN (Mix(s, m, salt, 1) % 41) - 20 ELSE (Mix(s, m, salt, 2) % 9) - 4]],
   prec4 |-> [s \in 1..n |-> [m \in 1..(vlen * nw) |-> PrecTab[(Mix(s, m, salt, 3) % 9) + 1]]]]
Init == e = NoInst
Next == /\ e = NoInst
        /\ \E n \in NStates : \E durs \in [1..n -> 1..MaxDur], voiced \in [1..n -> BOOLEAN] : \E wk \in WinSets, vl \in VLens, sa \in Salts :
              e' = Inst(n, durs, voiced, wk, vl, sa)
Spec == Init /\ [][Next]_e
Structure == e # NoInst => Symmetric(e) /\ DiagPositive(e) /\ Decoupled(e) /\ ThresholdMonotone(e)
Emit == e # NoInst => PrintT(<<"CASE", ToJson(e)>>)
====
