CONSTANTS MaxTotal = 6  MaxBuf = 3
SPECIFICATION FairSpec
PROPERTIES Drains ExhaustedForever ConsumedForever ZeroIsFinal
CHECK_DEADLOCK FALSE
