---- MODULE Trace_Laws ----
(* Quantised measurement laws evaluated on recorded events (DESIGN 2.3 class 4, 3.11 "Laws").
   Every event carries observations of the implementation only; the law - including any reference
   value - is evaluated here in integer arithmetic.

   synth{nl,nstate,dur[],len,fperiod,nf,growth,witness,outcome}      C01: total, frame-exact synthesis
   fuzz{outcome}                                                      C01: structurally random labels never panic
   gain{vq,gain_udb,resid_ppb,getv_nano}                              C16: volume is a pure gain
   halftone{hq,diffs[],others_equal,len_equal,clamped}                C15: additional half tone
   gv{wq,eligible,ratio_ppm} / gvsweep                                C12: global variance
*)
EXTENDS Integers, Sequences, FiniteSets, TLC, Json, IOUtils
Rec == ndJsonDeserialize(IOEnv.TRACE)
Abs(x) == IF x < 0 THEN -x ELSE x
RECURSIVE Sum(_)
Sum(s) == IF s = <<>> THEN 0 ELSE Head(s) + Sum(Tail(s))

VARIABLES l, sweep
vars == <<l, sweep>>
IsEv(e) == l <= Len(Rec) /\ Rec[l].ev = e /\ l' = l + 1
Init == l = 1 /\ sweep = <<>>

\* ---- C01
SynthLaw(e) ==
  /\ e.outcome = "ok"                                  \* no panic, no error on well-formed labels
  /\ Len(e.dur) = e.nl * e.nstate                      \* every label contributes all of its states
  /\ \A i \in 1..Len(e.dur) : e.dur[i] >= 1            \* every state lasts at least one frame
  /\ e.frames = Sum(e.dur) /\ e.rem = 0                \* exactly frame_period x F samples (frames = len / fperiod)
  /\ (e.nl = 0 => e.frames = 0)
  /\ (e.witness <= 4000 => e.nf = -1)                  \* inside the stable range: every sample finite
  /\ (e.nf >= 0 => e.growth >= 100)                    \* non-finite only after runaway growth (>= 1e100)
Synth == IsEv("synth") /\ SynthLaw(Rec[l]) /\ UNCHANGED sweep
Fuzz == IsEv("fuzz") /\ Rec[l].outcome = "ok" /\ UNCHANGED sweep

\* ---- C11: voicing follows the threshold.  f32 bit patterns of non-negative floats order like the floats.
RECURSIVE Expand(_,_)
Expand(dur, i) == IF i > Len(dur) THEN <<>> ELSE [k \in 1..dur[i] |-> i] \o Expand(dur, i + 1)
VoicingLaw(e) == LET F == Expand(e.dur, 1) IN
   /\ Len(e.nodata) = Len(F) /\ Len(e.msd_bits) = Len(e.dur)
   \* voiced iff the weight EXCEEDS the threshold; the threshold is the f32 value thr_bits (side 0) or a hair below (side -1) /
   \* above (side 1) it - thresholds are f64 and need not be representable in f32
   /\ \A t \in 1..Len(F) : e.nodata[t] = ~(e.msd_bits[F[t]] > e.thr_bits \/ (e.side = -1 /\ e.msd_bits[F[t]] = e.thr_bits))
\* along an ascending threshold sweep of one utterance, voiced frames can only turn unvoiced
Voicing == /\ IsEv("voicing") /\ VoicingLaw(Rec[l])
           /\ IF Rec[l].first THEN sweep' = <<Rec[l].thr_bits, Rec[l].nodata>>
              ELSE /\ sweep # <<>> /\ Rec[l].thr_bits >= sweep[1] /\ Len(sweep[2]) = Len(Rec[l].nodata)
                   /\ \A t \in 1..Len(sweep[2]) : sweep[2][t] => Rec[l].nodata[t]
                   /\ sweep' = <<Rec[l].thr_bits, Rec[l].nodata>>
\* voice sets: the voicing weight is the interpolated one.  k[v] = weights in 64ths, msdq[s][v] = per-voice weights x 2^20 (rounded),
\* thrq = threshold x 2^20.  States whose interpolated weight is within the quantisation margin of the threshold are not judged.
MixVoicingLaw(e) == LET F == Expand(e.dur, 1)
                        nv == Len(e.k)
                        RECURSIVE SumK(_,_)
                        SumK(s, v) == IF v > nv THEN 0 ELSE e.k[v] * e.msdq[s][v] + SumK(s, v + 1)
                        RECURSIVE AbsK(_)
                        AbsK(v) == IF v > nv THEN 0 ELSE Abs(e.k[v]) + AbsK(v + 1)
                        margin == AbsK(1) + 64 + 8
                    IN /\ Len(e.nodata) = Len(F)
                       /\ \A t \in 1..Len(F) : LET w == SumK(F[t], 1) IN
                             /\ (w > 64 * e.thrq + margin => ~e.nodata[t])
                             /\ (w < 64 * e.thrq - margin => e.nodata[t])
MixVoicing == IsEv("mixvoicing") /\ MixVoicingLaw(Rec[l]) /\ UNCHANGED sweep
\* other streams' trajectories do not move when one stream's threshold / GV weight changes (digests)
Isolated == IsEv("isolated") /\ Rec[l].spectrum_equal /\ Rec[l].lpf_equal /\ UNCHANGED sweep

\* the engine's waveform is the public vocoder's rendering of the trajectories with voiced log-F0 limited to ln 20 Hz .. ln 20 kHz
\* and "no F0" frames as noise (digest equality)
Render == IsEv("render") /\ Rec[l].equal /\ UNCHANGED sweep

\* ---- C15: additional half tone h = h8 / 8: log-F0 of every voiced frame moves by h ln2/12 (7220283 nano per eighth)
HalfToneLaw(e) ==
   /\ e.len_equal /\ e.dur_equal /\ e.nodata_equal /\ e.spectrum_equal /\ e.lpf_equal      \* nothing else changes
   /\ (e.h8 = 0 => e.lf0_equal)                                                           \* h = 0 is the identity
   /\ (~e.clamped => \A i \in 1..Len(e.diffs) : Abs(e.diffs[i] - e.h8 * 7220283) <= 3 + Abs(e.h8))
   \* once a state mean reaches the 20 Hz .. 20 kHz limit the property claims nothing about the size of the shift
   \* (MLPG smoothing and GV redistribute the clamped means over neighbouring frames)
HalfTone == IsEv("halftone") /\ HalfToneLaw(Rec[l]) /\ UNCHANGED sweep

\* ---- C16: volume v dB = v_milli / 1000: every sample is multiplied by 10^(v/20)
GainLaw(e) == /\ Abs(e.gain_udb - 1000 * e.v_milli) <= 20            \* measured gain in micro-dB
              /\ e.resid_ppb <= 1000                                   \* x_v is ratio * x_0, sample by sample
              \* "to rounding accuracy": factor = 10^(v/20) and residual, both within 1e-12 (f64 evaluation errs by < 1e-14; observed 0 in these units)
              /\ e.gain_err_e13 <= 10 /\ e.resid_e13 <= 10
              /\ Abs(e.getv_nano) <= 100                               \* get_volume returns v up to rounding
              /\ e.len_equal /\ e.traj_equal                           \* and nothing else changes
Gain == IsEv("gain") /\ GainLaw(Rec[l]) /\ UNCHANGED sweep

\* ---- C12: global variance.  wq = weight in quarters, ratio_ppm = 1e6 var / gv_mean over the eligible frames
GvLaw(e) == /\ (e.eligible >= 100 => 5 * Abs(e.ratio_ppm - 250000 * e.wq) <= 250000 * e.wq)      \* within 20 %
Gv == /\ IsEv("gv") /\ GvLaw(Rec[l])
      /\ IF Rec[l].first THEN sweep' = <<Rec[l].wq, Rec[l].ratio_ppm>>
         ELSE /\ sweep # <<>> /\ Rec[l].wq > sweep[1]
              /\ (Rec[l].eligible >= 100 => Rec[l].ratio_ppm > sweep[2])                        \* grows with the weight
              /\ sweep' = <<Rec[l].wq, Rec[l].ratio_ppm>>
\* no eligible frame => plain ML trajectory; stream without GV unaffected by the weight
GvNone == IsEv("gvnone") /\ Rec[l].equal_to_ml /\ UNCHANGED sweep
GvOff == IsEv("gvoff") /\ Rec[l].unaffected /\ UNCHANGED sweep

\* ---- C17: corrupted label text is reported as an error (or still synthesizes), never a panic
Corrupt == IsEv("corrupt") /\ Rec[l].outcome \in {"ok", "err"} /\ UNCHANGED sweep

Next == Corrupt \/ Synth \/ Fuzz \/ MixVoicing \/ Voicing \/ Isolated \/ Render \/ HalfTone \/ Gain \/ Gv \/ GvNone \/ GvOff
Spec == Init /\ [][Next]_vars
Accepted == IF TLCGet("stats").diameter - 1 = Len(Rec) THEN TRUE
            ELSE Print(<<"REJECT at", TLCGet("stats").diameter>>, FALSE)
====
