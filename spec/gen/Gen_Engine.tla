---- MODULE Gen_Engine ----
(* API histories (setters, clones, one-shot syntheses, interleaved live generators) with the content keys the
   specification assigns to every artefact.  -simulate samples long histories; BFS enumerates short ones. *)
EXTENDS Engine, Json
CONSTANT L
GUtts == { [id |-> 1, form |-> "slice", timed |-> FALSE], [id |-> 1, form |-> "labels", timed |-> FALSE],
           [id |-> 1, form |-> "vec", timed |-> TRUE],     [id |-> 1, form |-> "array", timed |-> FALSE],
           [id |-> 2, form |-> "slice", timed |-> TRUE],   [id |-> 2, form |-> "vec", timed |-> FALSE],
           [id |-> 3, form |-> "labels", timed |-> FALSE], [id |-> 3, form |-> "slice", timed |-> TRUE],
           [id |-> 1, form |-> "slice", timed |-> TRUE],   [id |-> 2, form |-> "vec", timed |-> TRUE],
           [id |-> 3, form |-> "array", timed |-> TRUE],   [id |-> 3, form |-> "vec", timed |-> TRUE],
           \* utterance 4 consists of silence and pause labels only (no frame is eligible for global variance)
           [id |-> 4, form |-> "slice", timed |-> FALSE],  [id |-> 4, form |-> "labels", timed |-> FALSE],
           [id |-> 4, form |-> "vec", timed |-> TRUE] }
VARIABLE hist
gvars == <<vars, hist>>
GInit == Init /\ hist = <<>>
GNext == \/ Len(hist) < L /\ Next /\ hist' = Append(hist, last')
         \/ Len(hist) = L /\ hist' = Append(hist, [act |-> "fin"]) /\ UNCHANGED vars
GSpec == GInit /\ [][GNext]_gvars
Emit == Len(hist) = L + 1 => PrintT(<<"CASE", ToJson([hist |-> SubSeq(hist, 1, L)])>>)
====
