"""Trusted tokenizer for .htsvoice files (no semantics: it only splits the file into header
key/value lines, question lines, tree rows and PDF words).  Used to export the bundled voice's
tables for Trace_Voice, to sample the question pool, and to write PDF-perturbed copies."""
import re, struct, json, sys


def split_file(b):
    i = b.index(b"[DATA]\n") + len(b"[DATA]\n")
    head = b[:i].decode("utf-8")
    return head, b[i:], i


def header(head):
    sec = None
    out = {"GLOBAL": [], "STREAM": [], "POSITION": []}
    for line in head.split("\n"):
        if line.startswith("[") and line.endswith("]"):
            sec = line[1:-1]
            continue
        if sec in out and ":" in line:
            k, v = line.split(":", 1)
            out[sec].append((k, v))
    return out


def rng(v):
    a, b = v.split("-")
    return int(a), int(b)


def parse_tree_text(txt):
    """Question lines and tree rows, purely lexical."""
    qs = []
    for m in re.finditer(r"QS\s+(\S+)\s*\{\s*([^}]*)\}", txt):
        pats = [p.strip().strip('"') for p in m.group(2).split(",") if p.strip()]
        qs.append({"name": m.group(1), "pats": pats})
    trees = []
    for m in re.finditer(r"\{\*\}\[(\d+)\]\s*(\{([^}]*)\}|(\S+))", txt):
        state = int(m.group(1))
        if m.group(3) is not None:
            rows = []
            for line in m.group(3).split("\n"):
                t = line.split()
                if len(t) == 4:
                    rows.append({"id": int(t[0]), "q": t[1], "no": child(t[2]), "yes": child(t[3])})
            trees.append({"state": state, "nodes": rows, "leaf": 0})
        else:
            trees.append({"state": state, "nodes": [], "leaf": child(m.group(4))["v"]})
    return qs, trees


def child(tok):
    tok = tok.strip('"')
    if re.fullmatch(r"-?\d+", tok):
        return {"k": "n", "v": int(tok)}
    m = re.search(r"(\d+)$", tok)
    return {"k": "p", "v": int(m.group(1))}


def pdf_words(data, lo, hi, ntree, pdf_len):
    """counts then words as int32 bit patterns of the f32 entries"""
    blob = data[lo:hi + 1]
    counts = list(struct.unpack_from("<%dI" % ntree, blob, 0))
    off = 4 * ntree
    out = []
    for n in counts:
        tree = []
        for _ in range(n):
            tree.append(list(struct.unpack_from("<%di" % pdf_len, blob, off)))
            off += 4 * pdf_len
        out.append(tree)
    return out, off == len(blob)


def load(path):
    b = open(path, "rb").read()
    head, data, off = split_file(b)
    h = header(head)
    g = dict(h["GLOBAL"])
    st = dict(h["STREAM"])
    pos = dict(h["POSITION"])
    return b, head, data, off, g, st, pos


def model_tables(data, tree_rng, pdf_rng, pdf_len):
    txt = data[tree_rng[0]:tree_rng[1] + 1].decode("utf-8")
    qs, trees = parse_tree_text(txt)
    pdfs, exact = pdf_words(data, pdf_rng[0], pdf_rng[1], len(trees), pdf_len)
    return {"qs": {q["name"]: q["pats"] for q in qs}, "qorder": [q["name"] for q in qs], "trees": trees,
            "pdfs": pdfs, "pdf_len": pdf_len, "exact": exact}


def tables(path):
    """Everything the file says, as JSON-able tables (bit patterns for floats)."""
    b, head, data, off, g, st, pos = load(path)
    nstate = int(g["NUM_STATES"])
    out = {"global": g, "stream": st, "models": {}}
    out["models"]["dur"] = model_tables(data, rng(pos["DURATION_TREE"]), rng(pos["DURATION_PDF"]), nstate * 2)
    for s in g["STREAM_TYPE"].split(","):
        vlen = int(st["VECTOR_LENGTH[%s]" % s])
        nwin = int(st["NUM_WINDOWS[%s]" % s])
        msd = int(st["IS_MSD[%s]" % s])
        out["models"]["stream:" + s] = model_tables(data, rng(pos["STREAM_TREE[%s]" % s]), rng(pos["STREAM_PDF[%s]" % s]),
                                                    vlen * nwin * 2 + msd)
        if st.get("USE_GV[%s]" % s) == "1":
            out["models"]["gv:" + s] = model_tables(data, rng(pos["GV_TREE[%s]" % s]), rng(pos["GV_PDF[%s]" % s]), vlen * 2)
        wins = []
        for w in pos["STREAM_WIN[%s]" % s].split(","):
            lo, hi = rng(w)
            wins.append(data[lo:hi + 1].decode("utf-8").split())
        out.setdefault("windows", {})[s] = wins
    return out


def perturb(path, outpath, kind, seed):
    """Write a copy whose PDF float words are perturbed deterministically (layout unchanged).
    kind 'dur': duration means x1.25;  'all': every stream mean gets +-2% ; 'msd': voicing weights moved."""
    import random
    r = random.Random(seed)
    b, head, data, off, g, st, pos = load(path)
    data = bytearray(data)
    nstate = int(g["NUM_STATES"])

    def edit(pdf_rng, ntree_txt_rng, pdf_len, f):
        txt = bytes(data[ntree_txt_rng[0]:ntree_txt_rng[1] + 1]).decode("utf-8")
        ntree = len(re.findall(r"\{\*\}\[\d+\]", txt))
        o = pdf_rng[0] + 4 * ntree
        while o + 4 * pdf_len <= pdf_rng[1] + 1:
            words = list(struct.unpack_from("<%df" % pdf_len, data, o))
            words = f(words)
            struct.pack_into("<%df" % pdf_len, data, o, *words)
            o += 4 * pdf_len

    if kind in ("dur", "all"):
        edit(rng(pos["DURATION_PDF"]), rng(pos["DURATION_TREE"]), nstate * 2,
             lambda w: [x * 1.25 for x in w[:nstate]] + w[nstate:])
    if kind == "lf0low":
        # every log-F0 static mean lowered by 2 (a factor e^2 in pitch): most voiced means then lie below ln 20 Hz
        vlen = int(st["VECTOR_LENGTH[LF0]"]); nwin = int(st["NUM_WINDOWS[LF0]"]); msd = int(st["IS_MSD[LF0]"])
        edit(rng(pos["STREAM_PDF[LF0]"]), rng(pos["STREAM_TREE[LF0]"]), vlen * nwin * 2 + msd, lambda w: [w[0] - 2.0] + list(w[1:]))
    if kind in ("all", "msd"):
        for s in g["STREAM_TYPE"].split(","):
            vlen = int(st["VECTOR_LENGTH[%s]" % s]); nwin = int(st["NUM_WINDOWS[%s]" % s]); msd = int(st["IS_MSD[%s]" % s])
            n = vlen * nwin

            def f(w, n=n, msd=msd):
                w = list(w)
                if kind == "all":
                    for i in range(n):
                        w[i] = w[i] * (1.0 + 0.02 * (r.random() - 0.5)) + 0.01 * (r.random() - 0.5)
                if msd:
                    w[2 * n] = min(0.999, max(0.001, w[2 * n] + 0.3 * (r.random() - 0.5)))
                return w
            edit(rng(pos["STREAM_PDF[%s]" % s]), rng(pos["STREAM_TREE[%s]" % s]), n * 2 + msd, f)
            # the global-variance Gaussians differ between copies as well (means +-25 %), so that GV weights are observable
            if kind == "all" and st.get("USE_GV[%s]" % s) == "1":
                edit(rng(pos["GV_PDF[%s]" % s]), rng(pos["GV_TREE[%s]" % s]), vlen * 2,
                     lambda w, vlen=vlen: [x * (1.0 + 0.5 * (r.random() - 0.5)) for x in w[:vlen]] + list(w[vlen:]))
    open(outpath, "wb").write(b[:off] + bytes(data))


if __name__ == "__main__":
    if sys.argv[1] == "tables":
        json.dump(tables(sys.argv[2]), open(sys.argv[3], "w"))
    elif sys.argv[1] == "perturb":
        perturb(sys.argv[2], sys.argv[3], sys.argv[4], int(sys.argv[5]))


def fault_base(path):
    """Description of a real file for spec/Faults.tla: header lines with kinds, cut points, text ranges."""
    b = open(path, "rb").read()
    head, data, off = split_file(b)
    lines = head.split("\n")
    assert lines[-1] == "", "header must end with a newline"
    lines = lines[:-1]
    kv = []
    cuts = [off]
    texts = []
    refs = []
    for line in lines:
        if line.startswith("["):
            kv.append({"k": line, "v": "", "kind": "sec", "nums": []})
            continue
        k, v = line.split(":", 1)
        kind, nums = "str", []
        if re.fullmatch(r"(SAMPLING_FREQUENCY|FRAME_PERIOD|NUM_STATES|NUM_STREAMS|VECTOR_LENGTH\[\w+\]|NUM_WINDOWS\[\w+\])", k):
            kind, nums = "int", [int(v)]
        elif re.fullmatch(r"(IS_MSD|USE_GV)\[\w+\]", k):
            kind = "bool"
        elif k == "STREAM_TYPE":
            kind = "names"
        elif k == "GV_OFF_CONTEXT":
            kind = "pats"
        elif k.startswith("OPTION["):
            kind = "opts"
        elif k.startswith("STREAM_WIN["):
            kind = "ranges"
            for w in v.split(","):
                lo, hi = rng(w)
                nums += [lo, hi]
                cuts += [off + lo, off + hi + 1]
                texts.append({"lo": off + lo, "hi": off + hi})
        elif re.fullmatch(r"(DURATION|STREAM|GV)_(PDF|TREE)(\[\w+\])?", k):
            kind = "range"
            lo, hi = rng(v)
            nums = [lo, hi]
            cuts += [off + lo, off + hi + 1]
            if "TREE" in k:
                texts.append({"lo": off + lo, "hi": off + hi})
                # child references to the single-digit node ids -1 .. -9 (third / fourth token of a node line): writing "0"
                # over the digit makes the child the root again, i.e. a reference that resolves but closes a cycle
                txt = b[off + lo:off + hi + 1]
                found = [m.start(1) for m in re.finditer(rb"\n\s*-?\d+ \S+ +(?:\S+ +)?-([1-9])(?=[ \n])", txt)]
                refs += [off + lo + x for x in found[:2] + found[-1:]]
        kv.append({"k": k, "v": v, "kind": kind, "nums": nums})
    return {"kv": kv, "cuts": sorted(set(cuts)), "total": len(b), "texts": texts, "refs": sorted(set(refs))}


def chain_voice(src, dst, n, qname, pats):
    """A copy of a real voice whose duration model is one tree of n question nodes in a chain (node i: question `qname`,
    no -> node i+1, yes -> leaf i+1; the last node: yes -> leaf n, no -> leaf n+1) with n+1 PDFs whose first mean is the PDF
    index.  Every other section is kept; the [POSITION] ranges are recomputed.  Purely lexical, like the rest of this file."""
    b, head, data, off, g, st, pos = load(src)
    nstate = int(g["NUM_STATES"])
    lines = ['QS %s { %s }' % (qname, ",".join('"%s"' % p for p in pats)), "", "{*}[2]", "{"]
    for i in range(n):
        nid = "0" if i == 0 else str(-i)
        no = str(-(i + 1)) if i + 1 < n else '"dur_s2_%d"' % (n + 1)
        lines.append(" %s %s   %s  \"dur_s2_%d\" " % (nid, qname, no, i + 1))
    lines += ["}", "", ""]
    tree = "\n".join(lines).encode()
    pdf = struct.pack("<I", n + 1)
    for k in range(1, n + 2):
        pdf += struct.pack("<%df" % (2 * nstate), *([float(k)] + [2.0] * (nstate - 1) + [1.0] * nstate))
    hl = head.split("\n")
    pi = hl.index("[POSITION]")
    di = hl.index("[DATA]")
    out = bytearray()
    newpos = []
    for line in hl[pi + 1:di]:
        k, v = line.split(":", 1)
        rs = []
        for w in v.split(","):
            lo, hi = rng(w)
            blob = pdf if k == "DURATION_PDF" else tree if k == "DURATION_TREE" else data[lo:hi + 1]
            rs.append("%d-%d" % (len(out), len(out) + len(blob) - 1))
            out += blob
        newpos.append("%s:%s" % (k, ",".join(rs)))
    newhead = "\n".join(hl[:pi + 1] + newpos + hl[di:])
    open(dst, "wb").write(newhead.encode() + bytes(out))
