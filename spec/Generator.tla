---------------------------- MODULE Generator ----------------------------
(* The incremental speech generator (jbonsai::speech::SpeechGenerator) as a machine.

   The waveform of an utterance is a sequence of `total` frames; frame k (0-based) is
   fperiod samples.  One-shot synthesis returns frames 0..total-1.  A generator is a cursor
   `next` over the same frames:

     Step(b)  - caller passes a buffer of b frames' worth of cells (b >= 1).  If next = total
                the call returns 0 and writes nothing; otherwise it returns fperiod, writes
                frame `next` into the first fperiod cells, nothing beyond, and advances.
     Query    - returns `next` (frames produced so far); no effect.
     Finish   - consumes the generator and returns frames next..total-1, in order.

   Frames are abstract ids 0..total-1: "cell block i of the buffer holds frame k" is what the
   conformance harness checks bit-for-bit against the one-shot waveform. *)
EXTENDS Integers, Sequences

CONSTANTS MaxTotal,      \* totals explored: 0..MaxTotal
          MaxBuf         \* buffer sizes explored: 1..MaxBuf frames

VARIABLES total,  \* number of frames of the utterance
          next,   \* cursor
          alive,  \* FALSE once Finish consumed the generator
          out,    \* frames handed to the caller so far, in order (ghost)
          last    \* observation of the last call (ret, frames written, position in buffer)

vars == <<total, next, alive, out, last>>

Frames(a, b) == [i \in 1..(b - a) |-> a + i - 1]      \* <<a, a+1, .., b-1>>

Init == /\ total \in 0..MaxTotal
        /\ next = 0 /\ alive = TRUE /\ out = <<>>
        /\ last = [act |-> "new", ret |-> 0, wrote |-> <<>>]

Step(b) == /\ alive
           /\ IF next >= total
                THEN /\ last' = [act |-> "step", ret |-> 0, wrote |-> <<>>]
                     /\ UNCHANGED <<next, out>>
                ELSE /\ last' = [act |-> "step", ret |-> 1, wrote |-> <<next>>]   \* ret in units of fperiod
                     /\ next' = next + 1
                     /\ out' = Append(out, next)
           /\ UNCHANGED <<total, alive>>

Query == /\ alive
         /\ last' = [act |-> "query", ret |-> next, wrote |-> <<>>]
         /\ UNCHANGED <<total, next, alive, out>>

Finish == /\ alive
          /\ last' = [act |-> "finish", ret |-> total - next, wrote |-> Frames(next, total)]
          /\ out' = out \o Frames(next, total)
          /\ next' = total
          /\ alive' = FALSE
          /\ UNCHANGED total

Next == (\E b \in 1..MaxBuf : Step(b)) \/ Query \/ Finish

Spec == Init /\ [][Next]_vars

--------------------------------------------------------------------------
(* Properties (C02) *)
TypeOK == /\ total \in 0..MaxTotal /\ next \in 0..total /\ alive \in BOOLEAN

\* what the caller has received is always a prefix of the one-shot waveform, without gaps or repeats
PrefixOfOneShot == out = Frames(0, Len(out)) /\ Len(out) <= total
\* the frames-produced query is exact
CursorExact == Len(out) = next
\* after Finish the caller holds exactly the one-shot waveform
FinishCompletes == ~alive => out = Frames(0, total)
\* a step on an exhausted generator returns 0 and writes nothing
ExhaustedSilent == (last.act = "step" /\ last.ret = 0) => (next = total /\ last.wrote = <<>>)
\* a productive step writes exactly one frame
OneFramePerStep == (last.act = "step" /\ last.ret = 1) => Len(last.wrote) = 1
\* Finish returns exactly the not yet produced suffix
SuffixExact == last.act = "finish" => last.wrote = Frames(total - last.ret, total)

\* action property: the cursor never moves backwards and moves by at most one per step
Monotone == [][next' >= next /\ (alive' => next' <= next + 1)]_vars
--------------------------------------------------------------------------
(* Progress (C02): the caller's loop `while generate_step(buf) > 0 {}` terminates, and what it reaches is final.
   Fairness is put only on the productive step - the caller is not obliged to call Query or Finish. *)
Productive == next < total /\ \E b \in 1..MaxBuf : Step(b)
FairSpec == Spec /\ WF_vars(Productive)

\* every fair behaviour reaches the end of the utterance (by stepping or by Finish) ...
Drains == <>(next = total)
\* ... and stays there: an exhausted generator never produces again, a consumed one never revives
ExhaustedForever == [](next = total => [](next = total))
ConsumedForever == [](~alive => [](~alive))
\* once a step returned 0 every later step returns 0 as well (the loop condition is stable)
ZeroIsFinal == []((last.act = "step" /\ last.ret = 0) => []((last.act = "step") => last.ret = 0))
==========================================================================
