---- MODULE MC_Glob ----
(* Exhaustive equivalence of the definition and the algorithm on small strings. *)
EXTENDS Glob, TLC
CONSTANTS PLen, TLen
PAlpha == <<"a", "b", "*", "?">>
TAlpha == <<"a", "b">>
VARIABLES p, t
RECURSIVE Strs(_,_)
Strs(alpha, n) == IF n = 0 THEN {""} ELSE LET S == Strs(alpha, n-1) IN S \cup {s \o alpha[i] : s \in S, i \in 1..Len(alpha)}
Init == p \in Strs(PAlpha, PLen) /\ t \in Strs(TAlpha, TLen)
Next == UNCHANGED <<p, t>>
Spec == Init /\ [][Next]_<<p, t>>
Equivalent == MatchDef(p, t) = Match(p, t)
====
