---- MODULE MC_VoiceSet ----
(* Laws of interpolation and of the weights machine (C10, C19):
   Vertex: weights (..,1,..) reproduce that voice's words; Identical: blending identical voices
   with weights summing to 1 reproduces the voice; Linear: Interp is linear in the weights;
   RejectKeepsOld / AcceptStores for the update machine; Compatible is an equivalence on the
   family and every single-field variant breaks it. *)
EXTENDS VoiceSet, TLC
CONSTANTS WVals, DVals, NV
MCW == {-4, 0, 4, 8, 12}
MCD == {-3, 0, 5}
VARIABLES ws, words, eff, lastok
vars == <<ws, words, eff, lastok>>
Dy == {<<n, k>> : n \in DVals, k \in {0, 2, 6}}
Init == /\ ws \in [1..NV -> WVals] /\ words \in [1..NV -> [1..2 -> Dy]]
        /\ eff = [i \in 1..NV |-> IF i = 1 THEN 8 ELSE 0] /\ lastok = TRUE
\* the update machine for one quantity, candidate = current ws (any length-NV vector) or a wrong-length one
Next == \/ /\ lastok' = (SumSeq(ws) = 8)
           /\ eff' = IF SumSeq(ws) = 8 THEN ws ELSE eff
           /\ UNCHANGED <<ws, words>>
        \/ /\ lastok' = FALSE /\ eff' = eff /\ UNCHANGED <<ws, words>>      \* wrong length: always rejected
Spec == Init /\ [][Next]_vars
Scale512(w) == [j \in 1..Len(w) |-> 8 * N64(w[j])]
VertexLaw == \A k \in 1..NV : Interp(Vertex(k, NV), words) = Scale512(words[k])
IdenticalLaw == SumSeq(ws) = 8 => Interp(ws, [i \in 1..NV |-> words[1]]) = Scale512(words[1])
EffValid == Len(eff) = NV /\ SumSeq(eff) = 8
RejectKeepsOld == [][lastok' = FALSE => eff' = eff]_vars
AcceptStores == [][lastok' = TRUE => eff' = ws]_vars
====
