"""Per-property check pipelines (see DESIGN.md section 4)."""
import json, os
from vlib import *   # noqa

S = spec_path


# --------------------------------------------------------------------------- generic stages

def replay_stage(ctx, name, cmd, cases, extra_args=(), timeout=3600, distinct_key=None):
    """S->I: write the TLC-generated cases, run the harness replayer `cmd`, collect mismatches."""
    cpath = ctx.path(name + ".cases.jsonl")
    rpath = ctx.path(name + ".results.jsonl")
    write_jsonl(cpath, cases)
    p = run_jbv([cmd, cpath, rpath] + list(extra_args), timeout=timeout)
    if p.returncode != 0:
        log(p.stderr[-3000:])
        raise ToolError("replayer %s failed (rc=%s)" % (cmd, p.returncode))
    rows = read_jsonl(rpath)
    summary = None
    nbad = 0
    for r in rows:
        if "summary" in r:
            summary = r["summary"]
            continue
        nbad += 1
        ctx.violation(r.get("key", "mismatch"), "%s: %s" % (name, r.get("msg", "")), r)
    if summary is None:
        raise ToolError("replayer %s wrote no summary" % cmd)
    ctx.traces += summary.get("cases", len(cases))
    ctx.evaluations += summary.get("runs", summary.get("cases", len(cases)))
    for c in cases[:200000]:
        ctx.distinct.add(distinct_key(c) if distinct_key else json.dumps(c, sort_keys=True)[:400])
    if cases:
        ctx.sample({"stage": name, "case": cases[len(cases) // 2]})
    ctx.stage("REPLAY " + name, mismatching=nbad, **{k: v for k, v in summary.items() if isinstance(v, (int, float))})
    return summary


def record_stage(ctx, name, cmd, args, timeout=3600):
    tpath = ctx.path(name + ".ndjson")
    p = run_jbv([cmd] + list(args) + [tpath], timeout=timeout)
    if p.returncode != 0:
        log(p.stderr[-3000:])
        raise ToolError("recorder %s failed (rc=%s)" % (cmd, p.returncode))
    return tpath


def trace_stage(ctx, name, cfg, tla, tpath, reset_ev="reset", env=None, keyfn=None, max_rounds=25, xmx=None,
                timeout=3600):
    """I->S: validate a recorded trace; a rejected run (reset..next reset) is reported and removed,
    and validation continues on the remaining runs so that one rejection does not hide others."""
    rows = read_jsonl(tpath)
    ctx.evaluations += len(rows)
    if rows:
        ctx.sample({"stage": name, "event": trunc(rows[min(1, len(rows) - 1)])})
    for r in rows:
        ctx.distinct.add(json.dumps(r, sort_keys=True)[:300])
    rounds = 0
    while rows:
        rounds += 1
        cur = ctx.path("%s.round%d.ndjson" % (name, rounds))
        write_jsonl(cur, rows)
        ok, n, bad, out = validate_trace(ctx, "%s_r%d" % (name, rounds), cfg, tla, cur, env=env, xmx=xmx, timeout=timeout)
        if ok:
            ctx.traces += n
            break
        # locate the run containing event `bad` (1-based)
        i = bad - 1
        if i >= len(rows):
            i = len(rows) - 1
        start = i
        while start > 0 and rows[start].get("ev") != reset_ev:
            start -= 1
        end = i + 1
        while end < len(rows) and rows[end].get("ev") != reset_ev:
            end += 1
        run = rows[start:end]
        evt = rows[i]
        key = keyfn(evt, run) if keyfn else default_trace_key(evt)
        ctx.violation(key, "%s: specification rejects event #%d of the recorded run: %s" % (name, i - start + 1, json.dumps(trunc(evt))[:500]),
                      {"rejected_event_index_in_run": i - start, "run": [trunc(r, 4000) for r in run]})
        rows = rows[:start] + rows[end:]
        if rounds >= max_rounds:
            ctx.stage("TRACE %s: stopped after %d rejected runs" % (name, rounds))
            break
    return rounds


def trunc(r, n=300):
    out = {}
    for k, v in r.items():
        s = json.dumps(v)
        out[k] = v if len(s) <= n else (s[:n] + "...")
    return out


def default_trace_key(evt):
    if evt.get("ev") == "panic":
        return "panic:%s:%s" % (evt.get("in"), evt.get("msg"))
    return "rejected:%s" % evt.get("ev")


# --------------------------------------------------------------------------- C02

def check_C02(ctx):
    q = ctx.quick()
    mc(ctx, "Generator", S("mc", "MC_Generator.cfg"), S("mc", "MC_Generator.tla"), workers=4)
    # S->I: every call history of length <= L on generators of 0,1,2,3,5 frames
    cfg = S("gen", "Gen_Generator.cfg" if q else "Gen_Generator_thorough.cfg")
    cases = gen(ctx, "Generator", cfg, S("gen", "Gen_Generator.tla"), workers=4 if q else 8)
    replay_stage(ctx, "histories", "c02-replay", cases,
                 distinct_key=lambda c: json.dumps([c["total"], [(h["act"], h["buf"]) for h in c["hist"]]]))
    # I->S: random histories on the bundled voice (Engine::generator vs Engine::synthesize)
    tp = record_stage(ctx, "bundled", "c02-record", [ctx.seed, 40 if q else 600, 6 if q else 30])
    trace_stage(ctx, "generator", S("trace", "Trace_Generator.cfg"), S("trace", "Trace_Generator.tla"), tp)
    ctx.assumptions += [
        "direct generators are built with SpeechGenerator::new / Vocoder::new inside their documented preconditions",
        "bit-equality is checked on 64-bit FNV digests per frame in the trace direction and on raw bits in the replay direction",
    ]
    return ("model_checking",
            "S->I: all call histories over {step(1..3 frames), query, finish} of length <= L on 0,1,2,3,5-frame generators "
            "(3 vocoder kinds x 2 frame periods each); I->S: random histories on bundled-voice utterances under random "
            "conditions; distinct = distinct histories / distinct trace events",
            {})
