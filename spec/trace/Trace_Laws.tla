---- MODULE Trace_Laws ----
(* Quantised measurement laws evaluated on recorded events (DESIGN 2.3 class 4, 3.11 "Laws").
   Every event carries observations of the implementation only; the law - including any reference
   value - is evaluated here in integer arithmetic.

   synth{nl,nstate,dur[],len,fperiod,nf,growth,witness,outcome}      C01: total, frame-exact synthesis
   fuzz{outcome}                                                      C01: structurally random labels never panic
   gain{vq,gain_udb,resid_ppb,getv_nano}                              C16: volume is a pure gain
   halftone{hq,diffs[],others_equal,len_equal,clamped}                C15: additional half tone
   gv{wq,eligible,ratio_ppm} / gvsweep                                C12: global variance
*)
EXTENDS Integers, Sequences, FiniteSets, TLC, Json, IOUtils
Rec == ndJsonDeserialize(IOEnv.TRACE)
Abs(x) == IF x < 0 THEN -x ELSE x
RECURSIVE Sum(_)
Sum(s) == IF s = <<>> THEN 0 ELSE Head(s) + Sum(Tail(s))

VARIABLES l, sweep
vars == <<l, sweep>>
IsEv(e) == l <= Len(Rec) /\ Rec[l].ev = e /\ l' = l + 1
Init == l = 1 /\ sweep = <<>>

\* ---- C01
SynthLaw(e) ==
  /\ e.outcome = "ok"                                  \* no panic, no error on well-formed labels
  /\ Len(e.dur) = e.nl * e.nstate                      \* every label contributes all of its states
  /\ \A i \in 1..Len(e.dur) : e.dur[i] >= 1            \* every state lasts at least one frame
  /\ e.frames = Sum(e.dur) /\ e.rem = 0                \* exactly frame_period x F samples (frames = len / fperiod)
  /\ (e.nl = 0 => e.frames = 0)
  /\ (e.witness <= 4000 => e.nf = -1)                  \* inside the stable range: every sample finite
  /\ (e.nf >= 0 => e.growth >= 100)                    \* non-finite only after runaway growth (>= 1e100)
Synth == IsEv("synth") /\ SynthLaw(Rec[l]) /\ UNCHANGED sweep
Fuzz == IsEv("fuzz") /\ Rec[l].outcome = "ok" /\ UNCHANGED sweep

Next == Synth \/ Fuzz
Spec == Init /\ [][Next]_vars
Accepted == IF TLCGet("stats").diameter - 1 = Len(Rec) THEN TRUE
            ELSE Print(<<"REJECT at", TLCGet("stats").diameter>>, FALSE)
====
