---- MODULE Gen_Generator ----
(* Same machine as Generator + a history variable: BFS to depth L enumerates every call
   history of length <= L (DESIGN 2.1).  One JSON line per completed history. *)
EXTENDS Generator, TLC, Json
CONSTANTS L, Totals
VARIABLE hist
gvars == <<vars, hist>>
GInit == Init /\ total \in Totals /\ hist = <<>>
Rec(b) == [act |-> last'.act, buf |-> b, ret |-> last'.ret, wrote |-> last'.wrote, next |-> next']
GNext == /\ Len(hist) < L /\ alive
         /\ \/ \E b \in 1..MaxBuf : Step(b) /\ hist' = Append(hist, Rec(b))
            \/ Query /\ hist' = Append(hist, Rec(0))
            \/ Finish /\ hist' = Append(hist, Rec(0))
GSpec == GInit /\ [][GNext]_gvars
Done == Len(hist) = L \/ ~alive
Emit == Done => PrintT(<<"CASE", ToJson([total |-> total, hist |-> hist])>>)
====
