CONSTANTS Mode = "post"  Orders <- PostOrdersQ  Salts = {0, 1, 2, 3, 4, 5}  Alphas <- AlphasQ  Rates <- RatesQ  Betas = {1, 2, 4}  Stages = {1}
SPECIFICATION Spec
INVARIANTS Emit Pre
CHECK_DEADLOCK FALSE
