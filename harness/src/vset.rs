//! C19 / C10: voice sets, interpolation weights, interpolated parameters.  Replays Gen_VoiceSet cases.
use crate::c04::parse_labels;
use crate::util::*;
use crate::voicegen;
use jbonsai::model::{load_htsvoice_file, InterporationWeight, Models, VoiceSet};
use jbonsai::Engine;
use jlabel::Label;
use serde_json::{json, Value};
use std::sync::Arc;

fn render_all(case: &Value, tag: &str) -> Vec<String> {
    va(&case["voices"]).iter().enumerate().map(|(i, v)| voicegen::scratch(&voicegen::render(v), &format!("{}_{}", tag, i))).collect()
}
fn cleanup(paths: &[String]) {
    for p in paths {
        std::fs::remove_file(p).ok();
    }
}

fn replay_compat(i: usize, case: &Value) -> Option<(String, String)> {
    let paths = render_all(case, &format!("vs{}", i));
    let expect_ok = vb(&case["ok"]);
    let r = guarded(|| -> Result<(), (String, String)> {
        let mut voices = Vec::new();
        for p in &paths {
            voices.push(Arc::new(load_htsvoice_file(p).map_err(|e| ("compat:load".to_string(), format!("well-formed variant voice rejected by the loader: {}", e)))?));
        }
        let r1 = VoiceSet::new(voices).is_ok();
        let r2 = Engine::load(&paths).is_ok();
        if r1 != expect_ok {
            let diff: Vec<&str> = va(&case["kinds"]).iter().map(vs).filter(|k| *k != "same").collect();
            return Err((format!("compat:voiceset:{}", diff.join("+")), format!("VoiceSet::new ok={} expected ok={} for variants {}", r1, expect_ok, case["kinds"])));
        }
        if r2 != expect_ok {
            return Err(("compat:engine".into(), format!("Engine::load ok={} expected ok={} for variants {}", r2, expect_ok, case["kinds"])));
        }
        Ok(())
    });
    cleanup(&paths);
    match r {
        Ok(Ok(())) => None,
        Ok(Err(e)) => Some(e),
        Err(p) => Some((format!("compat:panic:{}", p), p)),
    }
}

/// "exactly one metadata field differs": copies of the loaded base voice, one of them with one public metadata field changed
fn replay_field(i: usize, case: &Value) -> Option<(String, String)> {
    let path = voicegen::scratch(&voicegen::render(&case["voice"]), &format!("vf{}", i));
    let r = guarded(|| -> Result<(), (String, String)> {
        let base = load_htsvoice_file(&path).map_err(|e| ("field:load".to_string(), format!("well-formed voice rejected by the loader: {}", e)))?;
        for c in va(&case["cases"]) {
            let (field, s, n, pos) = (vs(&c["field"]), vu(&c["stream"]).saturating_sub(1), vu(&c["n"]), vu(&c["pos"]));
            let mut v = base.clone();
            match field {
                "none" => {}
                "rate" => v.metadata.sampling_frequency += 1,
                "fperiod" => v.metadata.frame_period += 1,
                "nstate" => v.metadata.num_states += 1,
                "nstream" => v.metadata.num_streams += 1,
                "stream_type" => v.metadata.stream_type[s] = "XXX".to_string(),
                "vlen" => v.stream_models[s].metadata.vector_length += 1,
                "nwin" => v.stream_models[s].metadata.num_windows += 1,
                "msd" => v.stream_models[s].metadata.is_msd = !v.stream_models[s].metadata.is_msd,
                "usegv" => v.stream_models[s].metadata.use_gv = !v.stream_models[s].metadata.use_gv,
                "opts" => v.stream_models[s].metadata.option.push("X=1".to_string()),
                f => die(&format!("unknown metadata field {}", f)),
            }
            let base = Arc::new(base.clone());
            let voices: Vec<Arc<jbonsai::model::Voice>> = (1..=n).map(|k| if k == pos { Arc::new(v.clone()) } else { base.clone() }).collect();
            let ok = VoiceSet::new(voices).is_ok();
            if ok != vb(&c["ok"]) {
                return Err((format!("field:{}", field), format!("{} voices, voice {} differs from the first only in `{}`{}: VoiceSet::new ok={} expected ok={}",
                    n, pos, field, if vu(&c["stream"]) > 0 { format!(" of stream {}", s) } else { String::new() }, ok, c["ok"])));
            }
        }
        Ok(())
    });
    std::fs::remove_file(&path).ok();
    match r {
        Ok(Ok(())) => None,
        Ok(Err(e)) => Some(e),
        Err(p) => Some((format!("field:panic:{}", p), p)),
    }
}

fn weight_vec(w: &Value, tag: &str) -> Vec<f64> {
    let mut v: Vec<f64> = va(w).iter().map(|x| vi(x) as f64 / 8.0).collect();
    match tag {
        "nan" => {
            if !v.is_empty() {
                v[0] = f64::NAN
            }
        }
        "eps" => {
            if !v.is_empty() {
                v[0] += 2e-6
            }
        }
        _ => {}
    }
    v
}
fn expect_weights(e: &Value, nv: usize) -> Vec<f64> {
    if va(e).is_empty() { vec![1.0 / nv as f64; nv] } else { va(e).iter().map(|x| vi(x) as f64 / 8.0).collect() }
}
fn compare_eff(iw: &InterporationWeight, eff: &Value, nv: usize, ns: usize) -> Option<String> {
    if iw.get_duration().to_vec() != expect_weights(&eff["dur"], nv) {
        return Some(format!("duration weights {:?} expected {:?}", iw.get_duration().to_vec(), expect_weights(&eff["dur"], nv)));
    }
    for s in 0..ns {
        if iw.get_parameter(s).to_vec() != expect_weights(&eff["par"][s], nv) {
            return Some(format!("parameter[{}] weights {:?} expected {:?}", s, iw.get_parameter(s).to_vec(), expect_weights(&eff["par"][s], nv)));
        }
        if iw.get_gv(s).to_vec() != expect_weights(&eff["gv"][s], nv) {
            return Some(format!("gv[{}] weights {:?} expected {:?}", s, iw.get_gv(s).to_vec(), expect_weights(&eff["gv"][s], nv)));
        }
    }
    None
}
fn set_q(iw: &mut InterporationWeight, q: &str, s: usize, w: &[f64]) -> bool {
    match q {
        "dur" => iw.set_duration(w).is_ok(),
        "par" => iw.set_parameter(s, w).is_ok(),
        "gv" => iw.set_gv(s, w).is_ok(),
        other => die(&format!("unknown quantity {}", other)),
    }
}

fn replay_weights(base: &Engine, case: &Value, labels: &[Label]) -> Option<(String, String)> {
    let nv = vu(&case["nvoices"]);
    let ns = base.voices.global_metadata().num_streams;
    let r = guarded(|| -> Result<(), (String, String)> {
        let mut engine = base.clone();
        let mut last_eff = None;
        for (j, st) in va(&case["hist"]).iter().enumerate() {
            let w = weight_vec(&st["w"], vs(&st["tag"]));
            let ok = set_q(engine.condition.get_interporation_weight_mut(), vs(&st["q"]), vu(&st["s"]), &w);
            if ok != vb(&st["ok"]) {
                let why = if vs(&st["tag"]) != "ok" { vs(&st["tag"]) } else if w.len() != nv { "length" } else { "sum" };
                return Err((format!("weights:accept:{}", why), format!("step {}: set {}[{}] := {:?} returned ok={} expected ok={}", j, vs(&st["q"]), st["s"], w, ok, st["ok"])));
            }
            if let Some(m) = compare_eff(engine.condition.get_interporation_weight(), &st["eff"], nv, ns) {
                return Err((format!("weights:effective:{}", if ok { "accepted" } else { "rejected" }), format!("step {} (set {}[{}] := {:?}, ok={}): {}", j, vs(&st["q"]), st["s"], w, ok, m)));
            }
            last_eff = Some(&st["eff"]);
        }
        // synthesis after the history = synthesis of a fresh engine given the effective weights directly
        if let Some(eff) = last_eff {
            let mut fresh = base.clone();
            {
                let iw = fresh.condition.get_interporation_weight_mut();
                if !va(&eff["dur"]).is_empty() {
                    set_q(iw, "dur", 0, &expect_weights(&eff["dur"], nv));
                }
                for s in 0..ns {
                    if !va(&eff["par"][s]).is_empty() {
                        set_q(iw, "par", s, &expect_weights(&eff["par"][s], nv));
                    }
                    if !va(&eff["gv"][s]).is_empty() {
                        set_q(iw, "gv", s, &expect_weights(&eff["gv"][s], nv));
                    }
                }
            }
            let ls: Vec<Label> = labels[..3].to_vec();
            let a = engine.synthesize(ls.clone()).map_err(|e| ("weights:synth:error".to_string(), e.to_string()))?;
            let b = fresh.synthesize(ls).map_err(|e| ("weights:synth:error".to_string(), e.to_string()))?;
            if !bits_eq(&a, &b) {
                return Err(("weights:synth".into(), "synthesis after the update history differs from synthesis with the effective weights".into()));
            }
        }
        Ok(())
    });
    match r {
        Ok(Ok(())) => None,
        Ok(Err(e)) => Some(e),
        Err(p) => Some((format!("weights:panic:{}", p), p)),
    }
}

fn cmp512(got: f64, exp: &Value) -> bool {
    got * 512.0 == vi(exp) as f64
}

fn replay_interp(i: usize, case: &Value, table: &[Label]) -> Option<(String, String)> {
    let paths = render_all(case, &format!("ip{}", i));
    let r = guarded(|| -> Result<(), (String, String)> {
        let mut voices = Vec::new();
        for p in &paths {
            voices.push(Arc::new(load_htsvoice_file(p).map_err(|e| ("interp:load".to_string(), e.to_string()))?));
        }
        let nv = voices.len();
        let vset = VoiceSet::new(voices).map_err(|e| ("interp:voiceset".to_string(), format!("compatible voices rejected: {}", e)))?;
        let ns = vset.global_metadata().num_streams;
        let nstate = vu(&case["nstate"]);
        let mut iw = InterporationWeight::new(nv, ns);
        let eff = &case["eff"];
        let okd = set_q(&mut iw, "dur", 0, &expect_weights(&eff["dur"], nv));
        let mut okall = okd;
        for s in 0..ns {
            okall &= set_q(&mut iw, "par", s, &expect_weights(&eff["par"][s], nv));
            okall &= set_q(&mut iw, "gv", s, &expect_weights(&eff["gv"][s], nv));
        }
        if !okall {
            return Err(("interp:setters".into(), "a valid weight vector (right length, sums to 1) was rejected".into()));
        }
        let labels: Vec<Label> = va(&case["labels"]).iter().map(|l| table[vu(l) - 1].clone()).collect();
        let models = Models::new(&labels, &vset, &iw);
        let d = models.duration();
        if d.len() != labels.len() * nstate {
            return Err(("interp:dur:len".into(), format!("duration() has {} entries expected {}", d.len(), labels.len() * nstate)));
        }
        for (li, exp) in va(&case["dur"]).iter().enumerate() {
            for st in 0..nstate {
                let mv = d[li * nstate + st];
                if !cmp512(mv.0, &exp[st]) || !cmp512(mv.1, &exp[nstate + st]) {
                    return Err(("interp:dur".into(), format!("label {} state {}: duration Gaussian ({}, {}) expected ({}, {})/512", li, st, mv.0, mv.1, exp[st], exp[nstate + st])));
                }
            }
        }
        for (s, es) in va(&case["streams"]).iter().enumerate() {
            let ms = models.model_stream(s);
            let n = vu(&es["vlen"]) * vu(&es["nwin"]);
            if ms.vector_length != vu(&es["vlen"]) || ms.windows.size() != vu(&es["nwin"]) {
                return Err(("interp:stream:meta".into(), format!("stream {}: vector_length {} windows {}", s, ms.vector_length, ms.windows.size())));
            }
            if ms.stream.len() != labels.len() * nstate {
                return Err(("interp:stream:len".into(), format!("stream {} has {} entries", s, ms.stream.len())));
            }
            for li in 0..labels.len() {
                for st in 0..nstate {
                    let (p, msd) = &ms.stream[li * nstate + st];
                    let exp = &es["par"][li][st];
                    if p.len() != n {
                        return Err(("interp:stream:len".into(), format!("stream {}: {} Gaussians expected {}", s, p.len(), n)));
                    }
                    for j in 0..n {
                        if !cmp512(p[j].0, &exp[j]) || !cmp512(p[j].1, &exp[n + j]) {
                            return Err((format!("interp:stream{}", s), format!("stream {} label {} state {} comp {}: ({}, {}) expected ({}, {})/512", s, li, st, j, p[j].0, p[j].1, exp[j], exp[n + j])));
                        }
                    }
                    if vb(&es["msd"]) {
                        if !cmp512(*msd, &exp[2 * n]) {
                            return Err((format!("interp:msd{}", s), format!("stream {} label {} state {}: voicing weight {} expected {}/512", s, li, st, msd, exp[2 * n])));
                        }
                    } else if *msd != f64::MAX {
                        return Err((format!("interp:msd{}", s), format!("stream {} has no MSD but voicing weight {}", s, msd)));
                    }
                }
            }
            match (&ms.gv, vb(&es["usegv"])) {
                (None, false) => {}
                (Some((gp, sw)), true) => {
                    let vl = vu(&es["vlen"]);
                    for j in 0..vl {
                        if !cmp512(gp[j].0, &es["gv"][j]) || !cmp512(gp[j].1, &es["gv"][vl + j]) {
                            return Err((format!("interp:gv{}", s), format!("stream {} GV comp {}: ({}, {}) expected ({}, {})/512", s, j, gp[j].0, gp[j].1, es["gv"][j], es["gv"][vl + j])));
                        }
                    }
                    let exp_sw: Vec<bool> = va(&es["gvswitch"]).iter().flat_map(|b| vec![vb(b); nstate]).collect();
                    if *sw != exp_sw {
                        return Err((format!("interp:gvswitch{}", s), format!("stream {} GV switch {:?} expected {:?}", s, sw, exp_sw)));
                    }
                }
                _ => return Err((format!("interp:gvpresence{}", s), "GV presence differs from USE_GV".into())),
            }
        }
        Ok(())
    });
    cleanup(&paths);
    match r {
        Ok(Ok(())) => None,
        Ok(Err(e)) => Some(e),
        Err(p) => Some((format!("interp:panic:{}", p), p)),
    }
}

pub fn replay(cases_path: &str, out_path: &str, labels_path: &str) {
    let cases = read_jsonl(cases_path);
    let labels = parse_labels(labels_path);
    // weight histories share one engine
    let mut base: Option<Engine> = None;
    for c in &cases {
        if vs(&c["kind"]) == "wvoices" {
            let paths = render_all(c, "wv");
            base = Some(Engine::load(&paths).unwrap_or_else(|e| die(&format!("weights voices do not load: {}", e))));
            cleanup(&paths);
        }
    }
    let results = par_map(&cases, |i, case| match vs(&case["kind"]) {
        "compat" => replay_compat(i, case),
        "field" => replay_field(i, case),
        "weights" => replay_weights(base.as_ref().unwrap_or_else(|| die("weights case without voices")), case, &labels),
        "interp" => replay_interp(i, case, &labels),
        "wvoices" => None,
        k => die(&format!("unknown voiceset case kind {}", k)),
    });
    let mut out = Out::create(out_path);
    let mut failed = 0;
    for (i, r) in results.into_iter().enumerate() {
        if let Some((key, msg)) = r {
            failed += 1;
            let mut c = cases[i].clone();
            if let Some(o) = c.as_object_mut() {
                o.remove("voices");
            }
            out.line(&json!({"case": i, "key": key, "msg": msg, "input": c}));
        }
    }
    out.line(&json!({"summary": {"cases": cases.len(), "failed": failed}}));
    out.finish();
}

// ------------------------------------------------------------------ recorder (C10 I->S)
use crate::eng::Corpus;
use jbonsai::model::MeanVari;

fn q12(x: f64) -> i64 {
    (x * 4096.0).round() as i64
}
fn ulps(a: f64, b: f64) -> i64 {
    if a == b {
        return 0;
    }
    let (x, y) = (a.to_bits() as i64, b.to_bits() as i64);
    if (a < 0.0) != (b < 0.0) { i64::MAX / 2 } else { (x - y).abs() }
}
fn words(p: &[MeanVari], msd: Option<f64>) -> Vec<f64> {
    let mut w: Vec<f64> = p.iter().map(|m| m.0).collect();
    w.extend(p.iter().map(|m| m.1));
    if let Some(m) = msd {
        w.push(m);
    }
    w
}

/// paths: the bundled voice followed by PDF-perturbed copies
pub fn record(seed: u64, n: usize, out_path: &str, paths: &[String]) {
    let mut rng = Rng::new(seed ^ 0x10);
    let corpus = Corpus::load();
    let mut out = Out::create(out_path);
    let voices: Vec<Arc<jbonsai::model::Voice>> = paths
        .iter()
        .map(|p| Arc::new(load_htsvoice_file(p).unwrap_or_else(|e| die(&format!("{}: {}", p, e)))))
        .collect();
    let singles: Vec<Engine> = paths.iter().map(|p| Engine::load(&[p]).unwrap_or_else(|e| die(&e.to_string()))).collect();
    for it in 0..n {
        let nv = 2 + rng.below(voices.len().min(4) - 1);
        let mut idx: Vec<usize> = (0..voices.len()).collect();
        for i in 0..nv {
            let j = i + rng.below(idx.len() - i);
            idx.swap(i, j);
        }
        let idx = &idx[..nv];
        let vset = match VoiceSet::new(idx.iter().map(|i| voices[*i].clone()).collect()) {
            Ok(v) => v,
            Err(e) => {
                out.line(&json!({"ev": "error", "msg": format!("compatible copies rejected: {}", e)}));
                continue;
            }
        };
        let ns = vset.global_metadata().num_streams;
        let nstate = vset.global_metadata().num_states;
        // weights in 64ths: simplex, vertex, or with negative / over-unity components
        let mut draw = |rng: &mut Rng| -> Vec<i64> {
            let mut k = vec![0i64; nv];
            match rng.below(4) {
                0 => k[rng.below(nv)] = 64,
                1 => {
                    let mut rest = 64;
                    for v in 0..nv - 1 {
                        k[v] = rng.range(0, rest);
                        rest -= k[v];
                    }
                    k[nv - 1] = rest;
                }
                _ => {
                    let mut s = 0;
                    for v in 0..nv - 1 {
                        k[v] = rng.range(-32, 96);
                        s += k[v];
                    }
                    k[nv - 1] = 64 - s;
                }
            }
            k
        };
        let kd = draw(&mut rng);
        let kp: Vec<Vec<i64>> = (0..ns).map(|_| draw(&mut rng)).collect();
        let kg: Vec<Vec<i64>> = (0..ns).map(|_| draw(&mut rng)).collect();
        let f = |k: &Vec<i64>| -> Vec<f64> { k.iter().map(|x| *x as f64 / 64.0).collect() };
        let mut iw = InterporationWeight::new(nv, ns);
        let mut ok = iw.set_duration(&f(&kd)).is_ok();
        for s in 0..ns {
            ok &= iw.set_parameter(s, &f(&kp[s])).is_ok();
            ok &= iw.set_gv(s, &f(&kg[s])).is_ok();
        }
        if !ok {
            out.line(&json!({"ev": "error", "msg": "valid weights rejected"}));
            continue;
        }
        let nl = 1 + rng.below(3);
        let lines = corpus.utterance(&mut rng, nl);
        let labels: Vec<Label> = lines.iter().filter_map(|l| l.parse().ok()).collect();
        if labels.is_empty() {
            continue;
        }
        let r = guarded(|| {
            let mut evs = Vec::new();
            let models = Models::new(&labels, &vset, &iw);
            let d = models.duration();
            for (li, label) in labels.iter().enumerate() {
                let pv: Vec<Vec<i64>> = idx.iter().map(|i| {
                    let p = voices[*i].duration_model.get_parameter(2, label);
                    words(&p.parameters, None).iter().map(|x| q12(*x)).collect()
                }).collect();
                let val: Vec<i64> = words(&d[li * nstate..(li + 1) * nstate], None).iter().map(|x| q12(*x)).collect();
                evs.push(json!({"ev": "mix", "q": "dur", "stream": 0, "k": kd, "pv": pv, "val": val}));
            }
            let s = rng.below(ns);
            let ms = models.model_stream(s);
            let li = rng.below(labels.len());
            let st = rng.below(nstate);
            let is_msd = vset.stream_metadata(s).is_msd;
            let pv: Vec<Vec<i64>> = idx.iter().map(|i| {
                let p = voices[*i].stream_models[s].stream_model.get_parameter(st + 2, &labels[li]);
                words(&p.parameters, p.msd).iter().map(|x| q12(*x)).collect()
            }).collect();
            let (p, msd) = &ms.stream[li * nstate + st];
            let val: Vec<i64> = words(p, if is_msd { Some(*msd) } else { None }).iter().map(|x| q12(*x)).collect();
            evs.push(json!({"ev": "mix", "q": "par", "stream": s, "k": kp[s], "pv": pv, "val": val}));
            if let Some((gp, _)) = &ms.gv {
                let pv: Vec<Vec<i64>> = idx.iter().map(|i| {
                    let p = voices[*i].stream_models[s].gv_model.as_ref().unwrap().get_parameter(2, &labels[0]);
                    words(&p.parameters, None).iter().map(|x| q12(*x * 64.0)).collect()   // GV words are small: finer unit
                }).collect();
                let val: Vec<i64> = words(gp, None).iter().map(|x| q12(*x * 64.0)).collect();
                evs.push(json!({"ev": "mix", "q": "gv", "stream": s, "k": kg[s], "pv": pv, "val": val}));
            }
            evs
        });
        match r {
            Ok(evs) => evs.iter().for_each(|e| out.line(e)),
            Err(m) => out.line(&json!({"ev": "panic", "in": "models", "msg": m})),
        }
        // wiring: what the engine generates from a voice SET under independently chosen weights is what the public pipeline
        // (Models -> DurationEstimator -> MlpgAdjust per stream) gives for the same weights and condition.  Half of the time the
        // duration and all parameter weights sit on one common vertex while the GV weights are drawn freely.
        if it % 3 == 1 {
            let same_vertex = rng.chance(0.5);
            let which = rng.below(nv);
            let r = guarded(|| -> Result<bool, String> {
                let mut e = Engine::load(&idx.iter().map(|i| paths[*i].clone()).collect::<Vec<_>>()).map_err(|e| e.to_string())?;
                crate::eng::random_condition(&mut e, &mut rng, false);
                let mut vert = vec![0.0; nv];
                vert[which] = 1.0;
                {
                    let w = e.condition.get_interporation_weight_mut();
                    w.set_duration(&if same_vertex { vert.clone() } else { f(&kd) }).map_err(|e| e.to_string())?;
                    for s in 0..ns {
                        w.set_parameter(s, &if same_vertex { vert.clone() } else { f(&kp[s]) }).map_err(|e| e.to_string())?;
                        w.set_gv(s, &f(&kg[s])).map_err(|e| e.to_string())?;
                    }
                }
                let g = e.generator(labels.clone()).map_err(|e| e.to_string())?;
                let (sp, lf0, lpf) = g.verif_trajectories();
                let hooked = [sp.to_vec(), lf0.to_vec(), lpf.to_vec()];
                let c = &e.condition;
                let m = Models::new(&labels, &e.voices, c.get_interporation_weight());
                let dur = jbonsai::duration::DurationEstimator::new(m.duration(), m.nstate()).create(c.get_speed());
                let mut equal = true;
                for s in 0..ns {
                    let mut ms = m.model_stream(s);
                    if s == 1 {
                        ms.stream.apply_additional_half_tone(c.get_additional_half_tone());
                    }
                    let t = jbonsai::mlpg_adjust::MlpgAdjust::new(c.get_gv_weight(s), c.get_msd_threshold(s), ms).create(&dur);
                    equal &= t.len() == hooked[s].len() && t.iter().zip(&hooked[s]).all(|(a, b)| a.len() == b.len() && a.iter().zip(b).all(|(x, y)| x.to_bits() == y.to_bits()));
                }
                Ok(equal)
            });
            match r {
                Ok(Ok(eq)) => out.line(&json!({"ev": "wiring", "equal": eq, "same_vertex": same_vertex, "nvoices": nv})),
                Ok(Err(e)) => out.line(&json!({"ev": "error", "msg": e})),
                Err(m) => out.line(&json!({"ev": "panic", "in": "wiring", "msg": m})),
            }
        }
        // vertex weights reproduce the single voice's waveform exactly (every 4th iteration; synthesis is slow)
        if it % 4 == 0 {
            let which = rng.below(nv);
            let mut vert = vec![0.0; nv];
            vert[which] = 1.0;
            let r = guarded(|| -> Result<(String, String), String> {
                let mut e = Engine::load(&idx.iter().map(|i| paths[*i].clone()).collect::<Vec<_>>()).map_err(|e| e.to_string())?;
                {
                    let w = e.condition.get_interporation_weight_mut();
                    w.set_duration(&vert).map_err(|e| e.to_string())?;
                    for s in 0..ns {
                        w.set_parameter(s, &vert).map_err(|e| e.to_string())?;
                        w.set_gv(s, &vert).map_err(|e| e.to_string())?;
                    }
                }
                let a = e.synthesize(labels.clone()).map_err(|e| e.to_string())?;
                let b = singles[idx[which]].synthesize(labels.clone()).map_err(|e| e.to_string())?;
                Ok((digest(&a), digest(&b)))
            });
            match r {
                Ok(Ok((a, b))) => out.line(&json!({"ev": "vertex", "mix": a, "single": b, "voice": which, "nvoices": nv})),
                Ok(Err(e)) => out.line(&json!({"ev": "error", "msg": e})),
                Err(m) => out.line(&json!({"ev": "panic", "in": "vertex", "msg": m})),
            }
            // identical voices with arbitrary valid weights
            let same = VoiceSet::new(vec![voices[idx[0]].clone(); nv]).unwrap();
            let models = Models::new(&labels, &same, &iw);
            let one = VoiceSet::new(vec![voices[idx[0]].clone()]).unwrap();
            let iw1 = InterporationWeight::new(1, ns);
            let m1 = Models::new(&labels, &one, &iw1);
            let mut worst = 0i64;
            for (a, b) in models.duration().iter().zip(m1.duration().iter()) {
                worst = worst.max(ulps(a.0, b.0)).max(ulps(a.1, b.1));
            }
            for s in 0..ns {
                let (x, y) = (models.model_stream(s), m1.model_stream(s));
                for ((pa, ma), (pb, mb)) in x.stream.iter().zip(y.stream.iter()) {
                    for (a, b) in pa.iter().zip(pb.iter()) {
                        worst = worst.max(ulps(a.0, b.0)).max(ulps(a.1, b.1));
                    }
                    if vset.stream_metadata(s).is_msd {
                        worst = worst.max(ulps(*ma, *mb));
                    }
                }
            }
            out.line(&json!({"ev": "ident", "ulps": worst.min(1_000_000_000), "nvoices": nv}));
        }
    }
    out.finish();
}
