CONSTANTS Engines = {e1, e2}  Gens = {g1}  Utts <- MCUtts  NStream = 2  GvStreams = {1}  Hidden = TRUE
  SFields = {"speed", "ht"}  TFields = {}
SPECIFICATION Spec
INVARIANTS Deterministic
PROPERTIES CallsArePure SetterLocal GenFrozen
CONSTRAINT Bound
VIEW View
CHECK_DEADLOCK FALSE
