---- MODULE MC_Voice ----
(* Design-level checks on the voice family and the selection semantics (C04):
   every enumerated document is well-formed, every walk terminates in a PDF of its tree,
   the question table is non-trivial (both answers occur), and a yes/no transposition would be
   visible (some label takes each branch of each root). *)
EXTENDS Voice
CONSTANTS NStates, Shapes, Salts, Stages, WinSets
VARIABLE f
\* the family member is chosen in two steps (not in Init) so that TLC's workers share the enumeration;
\* nstream = 0 marks an incomplete choice
F0 == [nstate |-> 0, nstream |-> 0, winset |-> 1, stage |-> 0, gv |-> FALSE, shape |-> 0, quoted |-> FALSE, salt |-> 0]
Init == f = F0
Next == \/ f = F0 /\ \E ns \in NStates, sh \in Shapes, sa \in Salts, sg \in Stages :
                      f' = [F0 EXCEPT !.nstate = ns, !.shape = sh, !.salt = sa, !.stage = sg]
        \/ f # F0 /\ f.nstream = 0 /\ \E n \in {2, 3}, w \in WinSets, g \in BOOLEAN, q \in BOOLEAN :
                      f' = [f EXCEPT !.nstream = n, !.winset = w, !.gv = g, !.quoted = q]
Spec == Init /\ [][Next]_f
Models(v) == {v.dur} \cup {v.streams[s].model : s \in 1..Len(v.streams)} \cup
             {v.streams[s].gv : s \in {s \in 1..Len(v.streams) : v.streams[s].usegv}}
WellFormed == f.nstream = 0 \/ DocOK(Doc(f))
WalksEndInPdf == f.nstream = 0 \/ \A m \in Models(Doc(f)) : \A p \in 1..Len(m.trees) : \A l \in 1..NL :
                    Walk(m.trees[p], l) \in 1..Len(m.pdfs[p])
\* non-vacuity of the pool: every question is answered both ways over the label table
\* (the first NFallback questions of the pool are the bundled voice's three `*-N/H:*` questions: no label text ever
\*  has '-' before "/H:", so they are constantly false; they are in the pool because jbonsai evaluates them by regex)
NFallback == 3
PoolSplits == /\ \A q \in (NFallback + 1)..NQ : (\E l \in 1..NL : QTable[q][l]) /\ (\E l \in 1..NL : ~QTable[q][l])
              /\ \A q \in 1..NFallback : \A l \in 1..NL : ~QTable[q][l]
\* every leaf of every multi-leaf tree of the duration model is selected by some label (all PDFs reachable) - shapes 1,2
RootBothWays == f.nstream = 0 \/ \A m \in Models(Doc(f)) : \A p \in 1..Len(m.trees) :
                   m.trees[p].nodes # <<>> =>
                     LET q == QIdx(m.trees[p].nodes[1].q) IN q <= NFallback \/ ((\E l \in 1..NL : QTable[q][l]) /\ (\E l \in 1..NL : ~QTable[q][l]))
\* header offsets are contiguous and cover the data section exactly
OffsetsContiguous == f.nstream = 0 \/ LET v == Doc(f)  lay == Layout(Blobs(v), 0) IN
                       /\ lay[1].lo = 0
                       /\ \A i \in 1..(Len(lay) - 1) : lay[i + 1].lo = lay[i].hi + 1
                       /\ lay[Len(lay)].hi + 1 = ToksSize(Render(v).data)
====
