CONSTANTS Mode = "doc"  Depth = 2  G = 3  Docs = {1, 2, 3}
SPECIFICATION Spec
INVARIANTS Emit FaultsNonEmpty
CHECK_DEADLOCK FALSE
