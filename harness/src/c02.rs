//! C02: incremental generation = one-shot synthesis.
//!  replay: TLC-enumerated call histories (Gen_Generator) against real generators.
//!  record: random histories on the bundled voice -> ndjson trace for Trace_Generator.
use crate::eng::*;
use crate::util::*;
use jbonsai::speech::SpeechGenerator;
use jbonsai::vocoder::Vocoder;
use serde_json::{json, Value};

const NODATA: f64 = -1e10;

/// A small generator built directly from the public constructors.
/// kind 0: mel-cepstral, 3 LPF taps; kind 1: mel-cepstral, 1 LPF tap, beta > 0; kind 2: LSP stage 2; kind 4: no LPF stream.
fn direct(kind: usize, total: usize, fperiod: usize) -> SpeechGenerator {
    let mut rng = Rng::new(1000 + kind as u64);
    let (nmcp, nlpf, stage, beta) = match kind {
        0 => (4, 3, 0, 0.0),
        1 => (3, 1, 0, 0.25),
        4 => (3, 0, 0, 0.0), // no low-pass stream at all (a two-stream voice)
        _ => (4, 3, 2, 0.0),
    };
    let vocoder = Vocoder::new(nmcp, nlpf, stage, false, 16000, 0.25, beta, 1.5, fperiod);
    let mut sp = Vec::new();
    let mut lf0 = Vec::new();
    let mut lpf = Vec::new();
    for t in 0..total {
        if stage == 0 {
            sp.push((0..nmcp).map(|m| if m == 0 { rng.uniform(-0.5, 0.5) } else { rng.uniform(-0.3, 0.3) }).collect());
        } else {
            let mut v = vec![rng.uniform(0.5, 1.5)];
            for m in 1..nmcp {
                v.push(std::f64::consts::PI * (m as f64 + rng.uniform(-0.2, 0.2)) / nmcp as f64);
            }
            sp.push(v);
        }
        lf0.push(vec![if t % 3 == 1 { NODATA } else { rng.uniform(4.5, 5.5) }]);
        // every trajectory depends on the frame (a missing frame offset in any of the three must show): the low-pass
        // taps differ from frame to frame and are not symmetric
        // (a single tap of exactly 1 on every other frame: pure pulses, so the excitation is exactly zero between them)
        lpf.push(if nlpf == 0 {
            Vec::new()
        } else if nlpf == 1 { vec![if t % 2 == 0 { 1.0 } else { rng.uniform(0.5, 1.5) }] } else { vec![rng.uniform(0.1, 0.4), 0.5, rng.uniform(0.0, 0.3)] });
    }
    SpeechGenerator::new(fperiod, vocoder, sp, lf0, lpf)
}

/// Engine-backed generators on a rendered voice: utterances (label index lists) whose frame count is known.
pub struct EngineGens {
    engine: jbonsai::Engine,
    by_total: std::collections::HashMap<usize, Vec<jlabel::Label>>,
}
impl EngineGens {
    pub fn new(voice_path: &str, labels_path: &str) -> Self {
        let engine = jbonsai::Engine::load(&[voice_path]).unwrap_or_else(|e| die(&format!("{}: {}", voice_path, e)));
        let table = crate::c04::parse_labels(labels_path);
        let fp = engine.condition.get_fperiod();
        let mut by_total = std::collections::HashMap::new();
        by_total.insert(0usize, Vec::new());
        // single labels, pairs and triples until totals 1, 2, 3, 5 are all realised
        let n = table.len();
        let mut cands: Vec<Vec<usize>> = (0..n).map(|i| vec![i]).collect();
        for i in 0..n { for j in 0..n.min(6) { cands.push(vec![i, j]); } }
        for i in 0..n.min(6) { for j in 0..n.min(6) { for k in 0..n.min(4) { cands.push(vec![i, j, k]); } } }
        for c in cands {
            let ls: Vec<jlabel::Label> = c.iter().map(|i| table[*i].clone()).collect();
            if let Ok(Ok(w)) = guarded(|| engine.synthesize(ls.clone())) {
                by_total.entry(w.len() / fp).or_insert(ls);
            }
            if [1usize, 2, 3, 5].iter().all(|t| by_total.contains_key(t)) {
                break;
            }
        }
        EngineGens { engine, by_total }
    }
    fn make(&self, total: usize) -> Option<SpeechGenerator> {
        self.by_total.get(&total).and_then(|ls| self.engine.generator(ls.clone()).ok())
    }
    fn oneshot(&self, total: usize) -> Option<Vec<f64>> {
        self.by_total.get(&total).and_then(|ls| self.engine.synthesize(ls.clone()).ok())
    }
}

fn frame_eq(buf: &[f64], reference: &[f64], k: usize, fp: usize) -> bool {
    (k + 1) * fp <= reference.len() && bits_eq(&buf[..fp], &reference[k * fp..(k + 1) * fp])
}

/// Replay one history; returns None if every observation matched, else (step index, key, message).
fn replay_case(case: &Value, kind: usize, fp: usize, eg: Option<&EngineGens>) -> Option<(usize, String, String)> {
    let total = vu(&case["total"]);
    // kind 3: Engine::generator / Engine::synthesize on a rendered voice (fp is the voice's own frame period)
    let (fp, mk): (usize, Box<dyn Fn() -> Option<SpeechGenerator>>) = if kind == 3 {
        let eg = eg.unwrap();
        (eg.engine.condition.get_fperiod(), Box::new(move || eg.make(total)))
    } else {
        (fp, Box::new(move || Some(direct(kind, total, fp))))
    };
    let reference = match guarded(|| if kind == 3 { eg.unwrap().oneshot(total) } else { Some(direct(kind, total, fp).generate_all()) }) {
        Ok(Some(r)) => r,
        Ok(None) => return None, // this total is not realisable on the rendered voice
        Err(m) => return Some((0, format!("oneshot:panic:{}", m), m)),
    };
    if reference.len() != total * fp {
        return Some((0, "oneshot:len".into(), format!("one-shot length {} != {}", reference.len(), total * fp)));
    }
    let mut gen = match guarded(|| mk()) {
        Ok(Some(g)) => Some(g),
        Ok(None) => return None,
        Err(m) => return Some((0, format!("generator:panic:{}", m), m)),
    };
    for (j, st) in va(&case["hist"]).iter().enumerate() {
        let act = vs(&st["act"]);
        let ret = vu(&st["ret"]);
        match act {
            "step" => {
                let b = vu(&st["buf"]);
                let mut buf = vec![sentinel(); b * fp];
                let g = gen.as_mut().unwrap();
                let r = guarded(|| g.generate_step(&mut buf));
                let r = match r {
                    Ok(r) => r,
                    Err(m) => return Some((j, format!("step:panic:{}", m), m)),
                };
                if r != ret * fp {
                    return Some((j, "step:ret".into(), format!("generate_step returned {} expected {}", r, ret * fp)));
                }
                let wrote = va(&st["wrote"]);
                let head_ok = if wrote.is_empty() {
                    buf[..fp].iter().all(|x| x.to_bits() == SENTINEL_BITS)
                } else {
                    frame_eq(&buf, &reference, vu(&wrote[0]), fp)
                };
                if !head_ok {
                    return Some((j, "step:chunk".into(), format!("chunk differs from one-shot frame {:?}", wrote)));
                }
                if !buf[fp..].iter().all(|x| x.to_bits() == SENTINEL_BITS) {
                    return Some((j, "step:tail".into(), "cells beyond the first frame were written".into()));
                }
                let q = g.synthesized_frames();
                if q != vu(&st["next"]) {
                    return Some((j, "step:cursor".into(), format!("synthesized_frames {} expected {}", q, st["next"])));
                }
            }
            "query" => {
                let q = gen.as_ref().unwrap().synthesized_frames();
                if q != ret {
                    return Some((j, "query:ret".into(), format!("synthesized_frames {} expected {}", q, ret)));
                }
            }
            "finish" => {
                let g = gen.take().unwrap();
                let out = match guarded(move || g.generate_all()) {
                    Ok(o) => o,
                    Err(m) => return Some((j, format!("finish:panic:{}", m), m)),
                };
                if out.len() != ret * fp {
                    return Some((j, "finish:len".into(), format!("generate_all length {} expected {}", out.len(), ret * fp)));
                }
                if !bits_eq(&out, &reference[(total - ret) * fp..]) {
                    return Some((j, "finish:suffix".into(), "generate_all is not the unproduced suffix of the one-shot waveform".into()));
                }
            }
            other => die(&format!("unknown act {}", other)),
        }
    }
    None
}

pub fn replay(cases_path: &str, out_path: &str, voice: Option<&String>, labels: Option<&String>) {
    let cases = read_jsonl(cases_path);
    let eg = match (voice, labels) {
        (Some(v), Some(l)) => Some(EngineGens::new(v, l)),
        _ => None,
    };
    let mut out = Out::create(out_path);
    let mut failed = 0usize;
    let mut steps = 0usize;
    let mut runs = 0usize;
    let results = par_map(&cases, |_, case| {
        let mut runs = 0usize;
        for kind in [0usize, 1, 2, 4] {
            for fp in [1usize, 5] {
                runs += 1;
                if let Some((j, key, msg)) = replay_case(case, kind, fp, None) {
                    return (runs, Some((j, kind, fp, key, msg)));
                }
            }
        }
        if eg.is_some() {
            runs += 1;
            if let Some((j, key, msg)) = replay_case(case, 3, 0, eg.as_ref()) {
                return (runs, Some((j, 3, 0, format!("engine:{}", key), msg)));
            }
        }
        (runs, None)
    });
    for (i, (case, (r, bad))) in cases.iter().zip(results).enumerate() {
        steps += va(&case["hist"]).len();
        runs += r;
        if let Some((j, kind, fp, key, msg)) = bad {
            failed += 1;
            out.line(&json!({"case": i, "step": j, "kind": kind, "fperiod": fp, "key": key, "msg": msg, "input": case}));
        }
    }
    out.line(&json!({"summary": {"cases": cases.len(), "runs": runs, "failed": failed, "steps": steps}}));
    out.finish();
}

/// Random histories on the bundled voice (engine path), as a trace.
pub fn record(seed: u64, n: usize, max_labels: usize, out_path: &str) {
    let corpus = Corpus::load();
    let base = load_bundled();
    let mut rng = Rng::new(seed);
    let mut out = Out::create(out_path);
    for _ in 0..n {
        let mut engine = base.clone();
        let cond = random_condition(&mut engine, &mut rng, true);
        let nl = rng.below(max_labels + 1);
        let lines = corpus.utterance(&mut rng, nl);
        let fp = engine.condition.get_fperiod();
        let reference = match guarded(|| engine.synthesize(&lines[..])) {
            Ok(Ok(r)) => r,
            Ok(Err(e)) => {
                out.line(&json!({"ev": "error", "in": "synthesize", "msg": e.to_string(), "cond": cond, "lines": lines}));
                continue;
            }
            Err(m) => {
                out.line(&json!({"ev": "panic", "in": "synthesize", "msg": m, "cond": cond, "lines": lines}));
                continue;
            }
        };
        let total = reference.len() / fp;
        let refdg: Vec<String> = (0..total).map(|k| digest(&reference[k * fp..(k + 1) * fp])).collect();
        out.line(&json!({"ev": "reset", "total": total, "fperiod": fp, "rem": reference.len() % fp, "ref": refdg, "cond": cond, "nlabels": lines.len()}));
        let mut gen = match guarded(|| engine.generator(&lines[..])) {
            Ok(Ok(g)) => g,
            Ok(Err(e)) => {
                out.line(&json!({"ev": "error", "in": "generator", "msg": e.to_string()}));
                continue;
            }
            Err(m) => {
                out.line(&json!({"ev": "panic", "in": "generator", "msg": m}));
                continue;
            }
        };
        // history: a random number of steps (sometimes past the end), queries sprinkled, then maybe finish
        let nsteps = match rng.below(4) {
            0 => 0,
            1 => total + rng.below(3),
            _ => rng.below(total + 2),
        };
        let mut dead = false;
        for _ in 0..nsteps {
            if rng.chance(0.15) {
                out.line(&json!({"ev": "query", "ret": gen.synthesized_frames()}));
            }
            let blen = fp + rng.below(2 * fp + 1);
            let mut buf = vec![sentinel(); blen];
            match guarded(|| gen.generate_step(&mut buf)) {
                Ok(r) => {
                    let head_untouched = buf[..fp].iter().all(|x| x.to_bits() == SENTINEL_BITS);
                    let tail = buf[fp..].iter().all(|x| x.to_bits() == SENTINEL_BITS);
                    out.line(&json!({"ev": "step", "buf": blen, "ret": r,
                        "chunk": if head_untouched { "-".to_string() } else { digest(&buf[..fp]) }, "tail": tail}));
                }
                Err(m) => {
                    out.line(&json!({"ev": "panic", "in": "step", "msg": m}));
                    dead = true;
                    break;
                }
            }
        }
        if dead {
            continue;
        }
        out.line(&json!({"ev": "query", "ret": gen.synthesized_frames()}));
        if rng.chance(0.8) {
            match guarded(move || gen.generate_all()) {
                Ok(o) => {
                    let nf = o.len() / fp;
                    let dgs: Vec<String> = (0..nf).map(|k| digest(&o[k * fp..(k + 1) * fp])).collect();
                    out.line(&json!({"ev": "finish", "len": o.len(), "dgs": dgs}));
                }
                Err(m) => out.line(&json!({"ev": "panic", "in": "finish", "msg": m})),
            }
        }
    }
    out.finish();
}
