CONSTANTS Mode = "mcep"  Orders <- OrdersT  Salts = {0, 1, 2, 3, 4, 5}  Alphas <- AlphasT  Rates <- RatesT  Betas = {0}  Stages = {1}
SPECIFICATION Spec
INVARIANTS Emit Pre
CHECK_DEADLOCK FALSE
