---- MODULE Trace_Excitation ----
(* Trace validation for C07 (I->S) through the public Vocoder with an all-zero spectrum (identity filter).
   exact runs (periods P/Q, so that the machine of Excitation.tla can be followed exactly; ties branch):
     reset{q, fperiod}          a new vocoder: sample unit U = q x fperiod
     frame{p, smp[{k, h2}]}     one frame with target period p/q samples (0 = unvoiced); per sample the kind
                                "p" pulse / "z" exact zero / "n" noise and, for pulses, 1000 x height^2 (rounded)
   realistic runs (any F0, rate, frame period): property-level laws on measured quantities
     pitch{t0_milli, gaps[], npulse, nsamp, h2_milli[], clampok}    constant F0 after the glide has settled
     noise{n, mean_e4, var_e4, lags_e4[]}                            unvoiced frames
     mixed{h8[], x[], pulse[], noise[], c}                           mixed excitation with low-pass taps h8/8:
                                                                     x = h * pulse + (delta_c - h) * noise, all in 2^-12 units *)
EXTENDS Excitation, TLC, Json, IOUtils
Rec == ndJsonDeserialize(IOEnv.TRACE)
Abs(x) == IF x < 0 THEN -x ELSE x
RECURSIVE SumF(_,_,_)
SumF(f(_), lo, hi) == IF lo > hi THEN 0 ELSE f(lo) + SumF(f, lo + 1, hi)
VARIABLES l, S, q, fp       \* S: set of machine states compatible with the trace so far (ties branch)
vars == <<l, S, q, fp>>
IsEv(e) == l <= Len(Rec) /\ Rec[l].ev = e /\ l' = l + 1
Init == l = 1 /\ S = {Zero} /\ q = 1 /\ fp = 1
Reset == IsEv("reset") /\ q' = Rec[l].q /\ fp' = Rec[l].fperiod /\ S' = {Zero}
\* an observed sample matches a machine outcome: same kind; pulse height^2 = current period (exact up to quantisation)
Obs(o, smp) == o.k = smp.k /\ (o.k = "p" => Abs(smp.h2 * q * fp - 1000 * o.h2) <= q * fp)
RECURSIVE Run(_,_,_,_)
Run(SS, smps, i, U) == IF i > Len(smps) THEN SS
   ELSE Run(UNION { { o.s : o \in { o \in Sample(s, U) : Obs(o, smps[i]) } } : s \in SS }, smps, i + 1, U)
Frame == /\ IsEv("frame") /\ UNCHANGED <<q, fp>>
         /\ Len(Rec[l].smp) = fp
         /\ \E ends \in {Run({Start(s, Rec[l].p * fp, fp) : s \in S}, Rec[l].smp, 1, q * fp)} :
              /\ ends # {}                                              \* some branch of the machine explains the frame
              /\ \A e \in ends : e.pcur = Rec[l].p * fp                 \* the glide reached its target at the end of the frame
              /\ S' = {End(e, Rec[l].p * fp) : e \in ends}

\* ---- realistic runs
Floor(a, b) == a \div b
PitchLaw(e) ==
  /\ e.clampok                                                      \* F0 limited to 20 Hz .. 20 kHz
  /\ \A i \in 1..Len(e.gaps) : e.gaps[i] * 1000 >= e.t0_milli - 1000 - 2 /\ e.gaps[i] * 1000 <= e.t0_milli + 1000 + 2   \* floor / ceil of T0
  /\ \A i \in 1..Len(e.h2_milli) : Abs(e.h2_milli[i] - e.t0_milli) <= 2       \* impulse height sqrt(T0)
  /\ Abs(e.npulse * e.t0_milli - e.nsamp * 1000) <= e.t0_milli + 1000 + e.npulse  \* one impulse per T0: mean power 1
Pitch == IsEv("pitch") /\ PitchLaw(Rec[l]) /\ UNCHANGED <<S, q, fp>>
NoiseLaw(e) == /\ e.n >= 50000
               /\ Abs(e.mean_e4) <= 200 /\ Abs(e.var_e4 - 10000) <= 300
               /\ \A i \in 1..Len(e.lags_e4) : Abs(e.lags_e4[i]) <= 200
Noise == IsEv("noise") /\ NoiseLaw(Rec[l]) /\ UNCHANGED <<S, q, fp>>
\* x[m] = sum_i h[i] pulse[m-i] + (delta_{i,c} - h[i]) noise[m-i]   (taps in eighths, signals in 2^-12)
MixedLaw(e) == LET L == Len(e.h8)
                   hsum == SumF(LAMBDA i : Abs(e.h8[i]), 1, L)
                   tol == 4 + hsum + 4 + 2
               IN /\ Len(e.x) = Len(e.pulse) /\ Len(e.x) = Len(e.noise)
                  /\ \A m \in 1..Len(e.x) :
                       Abs(8 * e.x[m] - SumF(LAMBDA i : IF m - i + 1 >= 1
                              THEN e.h8[i] * e.pulse[m - i + 1] + ((IF i = e.c + 1 THEN 8 ELSE 0) - e.h8[i]) * e.noise[m - i + 1] ELSE 0, 1, L)) <= tol
Mixed == IsEv("mixed") /\ MixedLaw(Rec[l]) /\ UNCHANGED <<S, q, fp>>
Next == Reset \/ Frame \/ Pitch \/ Noise \/ Mixed
Spec == Init /\ [][Next]_vars
Accepted == IF TLCGet("stats").diameter - 1 = Len(Rec) THEN TRUE
            ELSE Print(<<"REJECT at", TLCGet("stats").diameter>>, FALSE)
====
