CONSTANTS Engines = {e1}  Gens = {g1}  Utts <- MCUtts  NStream = 3  GvStreams = {1, 2}  Hidden = FALSE
  SFields = {}  TFields = {}
SPECIFICATION DSpec
INVARIANTS Laws Sensitive
CHECK_DEADLOCK FALSE
