---- MODULE Trace_Generator ----
(* Trace validation for C02 (I->S).  The recorder (harness c02-record) drives real generators
   made by Engine::generator on the bundled voice and logs, per call, only what the caller sees:
     reset{total, fperiod, rem, ref[]}   one-shot waveform of the utterance as per-frame digests
     step{buf, ret, chunk, tail}          generate_step: return value, digest of the first fperiod
                                          cells ("-" if still the sentinel), tail untouched?
     query{ret}                           synthesized_frames
     finish{len, dgs[]}                   generate_all: length and per-frame digests
   The cursor `next` is hidden state carried by the specification (Generator's actions). *)
EXTENDS Generator, TLC, Json, IOUtils
Rec == ndJsonDeserialize(IOEnv.TRACE)

VARIABLES l, fperiod, ref
tvars == <<vars, l, fperiod, ref>>

IsEv(e) == l <= Len(Rec) /\ Rec[l].ev = e /\ l' = l + 1

TInit == /\ l = 1 /\ fperiod = 1 /\ ref = <<>>
         /\ total = 0 /\ next = 0 /\ alive = FALSE /\ out = <<>>
         /\ last = [act |-> "new", ret |-> 0, wrote |-> <<>>]

\* a new utterance: one-shot synthesis returned exactly total * fperiod samples
TReset == /\ IsEv("reset")
          /\ Rec[l].rem = 0 /\ Len(Rec[l].ref) = Rec[l].total
          /\ total' = Rec[l].total /\ fperiod' = Rec[l].fperiod /\ ref' = Rec[l].ref
          /\ next' = 0 /\ alive' = TRUE /\ out' = <<>>
          /\ last' = [act |-> "new", ret |-> 0, wrote |-> <<>>]

TStep == /\ IsEv("step")
         /\ \E b \in 1..MaxBuf : Step(b)
         /\ Rec[l].ret = last'.ret * fperiod
         /\ Rec[l].tail = TRUE                                      \* nothing beyond the first frame
         /\ IF last'.wrote = <<>> THEN Rec[l].chunk = "-"            \* exhausted: buffer untouched
            ELSE Rec[l].chunk = ref[last'.wrote[1] + 1]              \* bit-equal to one-shot frame `next`
         /\ UNCHANGED <<fperiod, ref>>

TQuery == /\ IsEv("query") /\ Query /\ Rec[l].ret = last'.ret /\ UNCHANGED <<fperiod, ref>>

TFinish == /\ IsEv("finish") /\ Finish
           /\ Rec[l].len = last'.ret * fperiod
           /\ Len(Rec[l].dgs) = last'.ret
           /\ \A i \in 1..last'.ret : Rec[l].dgs[i] = ref[last'.wrote[i] + 1]
           /\ UNCHANGED <<fperiod, ref>>

TNext == TReset \/ TStep \/ TQuery \/ TFinish
TSpec == TInit /\ [][TNext]_tvars

Accepted == IF TLCGet("stats").diameter - 1 = Len(Rec) THEN TRUE
            ELSE Print(<<"REJECT at", TLCGet("stats").diameter>>, FALSE)
====
