------------------------------- MODULE Faults -------------------------------
(* Fault model for voice files (C18, DESIGN 3.3).

   A base file is described by
     kv     : Seq([k, v, kind, nums])   its header lines (VoiceFile!HeaderKV or the tokenizer's export)
     cuts   : Seq(Nat)                  byte offsets of every section boundary (header end, each blob start/end)
     total  : Nat                       file size in bytes
     texts  : Seq([lo, hi])             absolute byte ranges of the text blobs (trees, windows) for byte flips
     refs   : Seq(Nat)                  byte offsets of the digit of some child references "-d" in tree texts (real files; <<>> otherwise)
     toks   : Seq(tok)                  the data tokens (rendered documents only; <<>> for a real file)
   A fault is a record [op |-> ..]; the harness applies a list of faults to the base in order:
     set{line,val}  replace the value of header line `line`;  del{line};  dup{line};  nonutf8{line};  mbchar{line,at,w};  key{line,how}
     swap{a,b}      exchange the values of two header lines
     cut{at}        keep only the first `at` bytes of the file
     flip{at,ch}    replace the byte at absolute offset `at` by character ch
     tokdel{i}, toku32{i,v}, toktxt{i,s}   data-token faults (rendered documents)
   Singles(b) is the set of all single faults; double faults are ordered pairs of them. *)
EXTENDS Integers, Sequences, FiniteSets, TLC

HUGE == "99999999999"
OVER == "99999999999999999999999"
S(n) == ToString(n)
Rg(a, b) == a \o "-" \o b

IntRepl(n) == {"0", "1", S(n + 1), HUGE, OVER, "-1", "abc", "", S(n) \o " ", "0" \o S(n)} \cup (IF n > 0 THEN {S(n - 1)} ELSE {})
BoolRepl == {"2", "", "x", "10", "true"}
RangeRepl(a, b) == { Rg(S(b), S(a)), Rg(S(a), ""), Rg(S(a), HUGE), "0-0", Rg(S(a), S(b + 1)), Rg(S(a + 1), S(b)),
                     Rg(HUGE, OVER), S(a), "abc-def", Rg(S(a), OVER), Rg(S(b + 1), S(b + 1)), "", Rg("-1", S(b)),
                     Rg(S(a), S(b)) \o "," \o Rg(S(a), S(b)) }
                   \cup (IF b > 0 THEN {Rg(S(a), S(b - 1))} ELSE {}) \cup (IF a > 0 THEN {Rg(S(a - 1), S(b))} ELSE {})
RangesRepl(nums) == LET a == nums[1]  b == nums[2] IN
                    RangeRepl(a, b) \cup (IF Len(nums) >= 4 THEN { Rg(S(nums[3]), S(nums[4])) \o "," \o Rg(S(a), S(b)),   \* swapped
                                                                    Rg(S(a), S(b)) }                                      \* one window dropped
                                          ELSE {})
NamesRepl == {"", "MCP", "MCP,LF0,LPF,XXX", "LF0,MCP", "MCP,MCP", "MCP,LF0,", ",", "MCP LF0"}
PatsRepl == {"\"", "\"*-sil+*", "***", "", "\"\"", "*-sil+*,", "\"*-sil+*\",,\"*-pau+*\""}
OptsRepl == {"GAMMA=x", "GAMMA=-1", "GAMMA=99999999999999999999999", "LN_GAIN=2", "ALPHA=abc", "ALPHA=", "=", "GAMMA", "ALPHA=0.25,ALPHA=0.5",
             "GAMMA=1,LN_GAIN=1"}
StrRepl == {"", "9.9", "abc\"def"}

Repl(e) == CASE e.kind = "int" -> IntRepl(e.nums[1])
             [] e.kind = "bool" -> BoolRepl
             [] e.kind = "range" -> RangeRepl(e.nums[1], e.nums[2])
             [] e.kind = "ranges" -> RangesRepl(e.nums)
             [] e.kind = "names" -> NamesRepl
             [] e.kind = "pats" -> PatsRepl
             [] e.kind = "opts" -> OptsRepl
             [] e.kind = "str" -> StrRepl
             [] OTHER -> {}

Lines(b) == 1..Len(b.kv)
SetFaults(b) == UNION { {[op |-> "set", line |-> i, val |-> r] : r \in Repl(b.kv[i])} : i \in Lines(b) }
DelFaults(b) == {[op |-> "del", line |-> i] : i \in Lines(b)}
DupFaults(b) == {[op |-> "dup", line |-> i] : i \in Lines(b)}
Utf8Faults(b) == {[op |-> "nonutf8", line |-> i] : i \in {i \in Lines(b) : b.kv[i].kind = "sec" \/ b.kv[i].kind = "names"}}
\* valid UTF-8 that is not ASCII: a 2- or 3-byte character where the grammar expects a digit, a boolean, a colon or a name
MbFaults(b) == {[op |-> "mbchar", line |-> i, at |-> a, w |-> w] :
                   i \in {i \in Lines(b) : b.kv[i].kind # "sec"}, a \in {"first", "before", "last", "key", "name"}, w \in {2, 3}}
\* the key of a line rewritten: NAME]SUB[, ][, NAME[SUB, NAMESUB], NAME[[SUB], NAME[SUB]], NAME[], [SUB], NAME]SUB[SUB], NAME[SUB]x,
\* and the colon after the key dropped / replaced by ";" (on the last line of a section the key then runs to the end of the section)
KeyFaults(b) == {[op |-> "key", line |-> i, how |-> h] : i \in {i \in Lines(b) : b.kv[i].kind # "sec"},
                    h \in {"swap", "only", "open", "close", "dopen", "dclose", "empty", "noname", "late", "trail", "nocolon", "semicolon"}}
RangeLines(b) == {i \in Lines(b) : b.kv[i].kind = "range"}
SwapFaults(b) == UNION { {[op |-> "swap", a |-> i, b |-> j] : j \in RangeLines(b) \cap {i + 1, i + 2}} : i \in RangeLines(b) }
CutPoints(b) == ({0} \cup UNION { {c - 1, c, c + 1} : c \in {b.cuts[i] : i \in 1..Len(b.cuts)} }) \cap 0..(b.total - 1)
CutFaults(b) == {[op |-> "cut", at |-> c] : c \in CutPoints(b)}
\* "x80" / "xFF" are not characters: the harness sets the high bit of the byte / writes 0xFF (bytes that are not UTF-8)
\* "2" / "0": an even or zero count where a window row announces its width, another state tag, node id or PDF id elsewhere
FlipChars == <<"{", "}", "\"", " ", "\n", "Z", "9", "-", "*", "[", "x80", "xFF", "2", "0">>
\* grid of G positions inside every text range plus its two ends
\* ... and the fourth and sixth byte of the range (inside the first question name of a tree section: "QS name {..}")
FlipPoints(b, G) == UNION { {b.texts[t].lo, b.texts[t].hi} \cup ({b.texts[t].lo + 3, b.texts[t].lo + 5} \cap b.texts[t].lo..b.texts[t].hi) \cup
                            { b.texts[t].lo + (g * (b.texts[t].hi - b.texts[t].lo)) \div (G + 1) : g \in 1..G } : t \in 1..Len(b.texts) }
FlipFaults(b, G) == {[op |-> "flip", at |-> p, ch |-> FlipChars[c]] : p \in FlipPoints(b, G), c \in 1..Len(FlipChars)}
\* child references of tree nodes (real files: offsets of the digit of a reference to node -1 .. -9, exported by the tokenizer):
\* "0" written over the digit makes the child the root - every reference still resolves, but the "tree" now contains a cycle
RefFaults(b) == {[op |-> "flip", at |-> b.refs[i], ch |-> "0"] : i \in 1..Len(b.refs)}
U32Idx(b) == {i \in 1..Len(b.toks) : b.toks[i].t = "u32"}
TokFaults(b) == {[op |-> "toku32", i |-> i, v |-> v] : i \in U32Idx(b), v \in {0, 7, 2147483647}}
                \cup {[op |-> "tokdel", i |-> i] : i \in {i \in 1..Len(b.toks) : i <= 3 \/ i >= Len(b.toks) - 1 \/ b.toks[i].t = "txt"}}
Singles(b, G) == SetFaults(b) \cup DelFaults(b) \cup DupFaults(b) \cup Utf8Faults(b) \cup MbFaults(b) \cup KeyFaults(b) \cup SwapFaults(b)
                 \cup CutFaults(b) \cup FlipFaults(b, G) \cup RefFaults(b) \cup TokFaults(b)
=============================================================================
