---- MODULE Gen_Faults ----
(* Enumerates single and double faults (BFS depth 1 and 2) over base files:
   Mode "doc": three members of the voice family, rendered here, plus text defects of the tree
   sections that need knowledge of the text's structure; Mode "file": a real file described by
   IOEnv.BASE (JSON written by the tokenizer). *)
EXTENDS Faults, Voice, Json, IOUtils
CONSTANTS Mode, Depth, G, Docs
VARIABLES base, applied
vars == <<base, applied>>

DocFams == << [nstate |-> 2, nstream |-> 3, winset |-> 3, stage |-> 0, gv |-> TRUE, shape |-> 2, quoted |-> TRUE, salt |-> 0],
              [nstate |-> 1, nstream |-> 2, winset |-> 1, stage |-> 2, gv |-> FALSE, shape |-> 0, quoted |-> FALSE, salt |-> 1],
              [nstate |-> 3, nstream |-> 3, winset |-> 4, stage |-> 1, gv |-> TRUE, shape |-> 4, quoted |-> TRUE, salt |-> 2] >>

HdrSize(hdr) == LET RECURSIVE Sz(_) Sz(i) == IF i > Len(hdr) THEN 0 ELSE Len(hdr[i]) + 1 + Sz(i + 1) IN Sz(1)
RECURSIVE Cum(_,_,_)
Cum(toks, i, off) == IF i > Len(toks) THEN <<>> ELSE <<off>> \o Cum(toks, i + 1, off + TokSize(toks[i]))
\* text defects of tree sections: replacement texts for the txt tokens, built from the document's structure
TxtDefects(v, r) ==
  LET ti == {i \in 1..Len(r.data) : r.data[i].t = "txt"} IN
  UNION { LET s == r.data[i].s IN
          { [op |-> "toktxt", i |-> i, s |-> "QS Zzz { \"*\" }\n" \o s],                      \* an extra question: harmless
            [op |-> "toktxt", i |-> i, s |-> s \o "{*}[9]\n{\n 0 NoSuchQuestion \"x_1\" \"x_2\" \n}\n"],   \* unknown question reference
            [op |-> "toktxt", i |-> i, s |-> s \o "{*}[9]\n -5\n"],                          \* single-leaf tree holding a node id
            [op |-> "toktxt", i |-> i, s |-> s \o "{*}[9]\n{\n 0 " \o QuestionTable[1].name \o " -4 \"x_1\" \n}\n"], \* dangling node id
            [op |-> "toktxt", i |-> i, s |-> s \o "{*}[9]\n{\n 0 " \o QuestionTable[1].name \o " \"x_q\" \"x_1\" \n}\n"], \* leaf name without digits
            [op |-> "toktxt", i |-> i, s |-> s \o "{*}[99999999999999999999]\n \"x_1\"\n"],   \* overlong state tag
            [op |-> "toktxt", i |-> i, s |-> s \o "{*}[-2]\n \"x_1\"\n"],                      \* negative state tag
            [op |-> "toktxt", i |-> i, s |-> s \o "{*}[2]\n \"x_99999999999999999999\"\n"],    \* overlong pdf id
            [op |-> "toktxt", i |-> i, s |-> s \o "{*}[2]\n \"x_999999999999999999999999\"\n"],  \* 24-digit pdf id
            [op |-> "toktxt", i |-> i, s |-> s \o "{*}[2]\n \"x_000000000000000000000000000001\"\n"],  \* 30 digits, value 1
            [op |-> "toktxt", i |-> i, s |-> s \o "{*}[2]\n{\n 0 " \o QuestionTable[1].name \o " -999999999999999999999999 \"x_1\" \n}\n"], \* 24-digit node id
            [op |-> "toktxt", i |-> i, s |-> s \o "{*}[2]\n \"x_0\"\n"],                       \* pdf id 0 (1-based index)
            [op |-> "toktxt", i |-> i, s |-> s \o "{*}[2]\n \"x_7\"\n"],                       \* pdf id beyond the block
            [op |-> "toktxt", i |-> i, s |-> s \o "{*}[9]\n{\n}\n"],                              \* a tree with an empty body
            [op |-> "toktxt", i |-> i, s |-> "{*}[2]\n{\n}\n"],                                   \* ... as the only tree
            [op |-> "toktxt", i |-> i, s |-> "{*}[2]\n{\n \n}\n"],
            [op |-> "toktxt", i |-> i, s |-> SubSeq(s, 1, Len(s) \div 2)],                    \* half of the text
            [op |-> "toktxt", i |-> i, s |-> ""],                                            \* empty text
            [op |-> "toktxt", i |-> i, s |-> "5 1.0 2.0"],                                   \* a window row that announces more than it holds
            [op |-> "toktxt", i |-> i, s |-> "99999999999999999999 1.0"],
            [op |-> "toktxt", i |-> i, s |-> "0"],
            [op |-> "toktxt", i |-> i, s |-> "2 1.0 1.0"] } : i \in ti }

\* ---- structural defects of one model's tree text with the file layout kept consistent (a complete rendered voice per defect).
\* Trees are replaced one for one so that the PDF block still matches the number of trees and parsing reaches the tree converter.
WithRaw(m, txt) == [qs |-> m.qs, trees |-> m.trees, pdfs |-> m.pdfs, raw |-> txt]
TreeDefectTexts(m, pre, quoted) ==
  LET good == ModelTreeTxt(m, pre, quoted)
      qtxt == QsTxt(m.qs)
      others == Cat([i \in 1..(Len(m.trees) - 1) |-> TreeTxt(m.trees[i + 1], pre, quoted)])
      first(t) == qtxt \o "\n" \o t \o others          \* replace the first tree by text t
      st == ToString(m.trees[1].state)
      q1 == QuestionTable[1].name
  IN << first("{*}[" \o st \o "]\n{\n}\n"),                                                    \* empty body
        first("{*}[" \o st \o "]\n{\n \n}\n"),
        first("{*}[" \o st \o "]\n -5\n"),                                                      \* single leaf holding a node id
        first("{*}[" \o st \o "]\n{\n 0 NoSuchQuestion \"x_1\" \"x_1\" \n}\n"),                 \* unknown question
        "QS " \o q1 \o " { \"*\" }\n\n" \o "{*}[" \o st \o "]\n{\n 0 " \o q1 \o " -4 \"x_1\" \n}\n" \o others,        \* dangling node id
        "QS " \o q1 \o " { \"*\" }\n\n" \o "{*}[" \o st \o "]\n{\n 0 " \o q1 \o " \"x_q\" \"x_1\" \n}\n" \o others,   \* leaf name without digits
        "QS " \o q1 \o " { \"*\" }\n\n" \o "{*}[" \o st \o "]\n{\n 0 " \o q1 \o " \"x_0\" \"x_9\" \n}\n" \o others,   \* pdf ids 0 and beyond the block
        "QS " \o q1 \o " { \"*\" }\nQS " \o q1 \o " { \"?\" }\n\n" \o "{*}[" \o st \o "]\n \"x_1\"\n" \o others,       \* duplicate question name
        first("{*}[" \o st \o "]\n \"x_999999999999999999999999\"\n"),                       \* 24-digit pdf id
        first("{*}[" \o st \o "]\n \"x_000000000000000000000000000001\"\n"),                 \* 30 digits, value 1 (a legal spelling)
        first("{*}[99]\n \"x_1\"\n"),                                                        \* a state tag no state uses
        first("{*}[" \o st \o "]\n{\n 0 " \o (IF Len(m.qs) > 0 THEN m.qs[1].name ELSE "Q") \o " 0 0 \n}\n"),     \* a node that refers to itself
        \* references that all resolve but close a cycle ("trees" that are not trees): on the no branch, on the yes branch,
        \* through a second node, and two nodes that only refer to each other (no leaf at all)
        "QS " \o q1 \o " { \"*\" }\n\n" \o "{*}[" \o st \o "]\n{\n 0 " \o q1 \o " -0 \"x_1\" \n}\n" \o others,
        "QS " \o q1 \o " { \"*\" }\n\n" \o "{*}[" \o st \o "]\n{\n 0 " \o q1 \o " \"x_1\" -0 \n}\n" \o others,
        "QS " \o q1 \o " { \"*\" }\n\n" \o "{*}[" \o st \o "]\n{\n 0 " \o q1 \o " -1 \"x_1\" \n -1 " \o q1 \o " \"x_1\" -0 \n}\n" \o others,
        "QS " \o q1 \o " { \"*\" }\n\n" \o "{*}[" \o st \o "]\n{\n 0 " \o q1 \o " -1 -1 \n -1 " \o q1 \o " -0 -0 \n}\n" \o others >>
DocDefects(v) ==
  {[op |-> "doc", voice |-> Render([v EXCEPT !.dur = WithRaw(v.dur, TreeDefectTexts(v.dur, "dur_", v.quoted)[d])])] : d \in 1..16}
  \cup UNION { {[op |-> "doc", voice |-> Render([v EXCEPT !.streams[s].model =
                     WithRaw(v.streams[s].model, TreeDefectTexts(v.streams[s].model, v.streams[s].pre, v.quoted)[d])])] : d \in 1..16}
              : s \in 1..Len(v.streams) }
  \cup UNION { {[op |-> "doc", voice |-> Render([v EXCEPT !.streams[s].gv =
                     WithRaw(v.streams[s].gv, TreeDefectTexts(v.streams[s].gv, "gv_" \o v.streams[s].pre, v.quoted)[d])])] : d \in 1..16}
              : s \in {s \in 1..Len(v.streams) : v.streams[s].usegv} }

DocBase(k) == LET v == Doc(DocFams[k])  r == Render(v)  bs == Blobs(v)  lay == Layout(bs, 0)
                  hs == HdrSize(r.header)  tsz == ToksSize(r.data) IN
  [id |-> k, kv |-> HeaderKV(v, lay), total |-> hs + tsz,
   cuts |-> <<hs>> \o [i \in 1..Len(lay) |-> hs + lay[i].hi + 1],
   texts |-> [i \in 1..Len(SelectSeq(bs, LAMBDA x : x.toks[1].t = "txt")) |->
                LET nm == SelectSeq(bs, LAMBDA x : x.toks[1].t = "txt")[i].name  e == LayOf(lay, nm) IN [lo |-> hs + e.lo, hi |-> hs + e.hi]],
   toks |-> r.data, refs |-> <<>>,
   \* complete re-renderings are only enumerated as single faults (they replace the whole file anyway)
   extra |-> IF Depth = 1 THEN TxtDefects(v, r) \cup DocDefects(v) ELSE TxtDefects(v, r)]
FileBase == LET j == JsonDeserialize(IOEnv.BASE) IN
  [id |-> 0, kv |-> j.kv, total |-> j.total, cuts |-> j.cuts, texts |-> j.texts, toks |-> <<>>, refs |-> j.refs, extra |-> {}]
Base(k) == IF Mode = "file" THEN FileBase ELSE DocBase(k)
AllSingles(b) == Singles(b, G) \cup b.extra

Fin == [op |-> "fin"]
Init == base = 0 /\ applied = <<>>
Next == \/ base = 0 /\ \E k \in Docs : base' = k /\ applied' = <<>>
        \/ base # 0 /\ Len(applied) < Depth /\ \E x \in AllSingles(Base(base)) : applied' = Append(applied, x) /\ UNCHANGED base
        \/ base # 0 /\ Len(applied) = Depth /\ applied' = Append(applied, Fin) /\ UNCHANGED base     \* print marker (one line per behaviour)
Spec == Init /\ [][Next]_vars
Emit == /\ (base # 0 /\ applied = <<>> /\ Mode = "doc") =>
              PrintT(<<"CASE", ToJson([kind |-> "base", id |-> base, voice |-> Render(Doc(DocFams[base]))])>>)
        /\ (Len(applied) = Depth + 1) => PrintT(<<"CASE", ToJson([kind |-> "fault", base |-> base, ops |-> SubSeq(applied, 1, Depth)])>>)
\* the enumeration is not vacuous
FaultsNonEmpty == (base # 0 /\ applied = <<>>) => Cardinality(AllSingles(Base(base))) > 100
====
