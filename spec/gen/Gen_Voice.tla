---- MODULE Gen_Voice ----
(* Enumerates the voice family and, for each voice, emits the rendered file plus what the
   specification says a reader must obtain from it (C04 S->I). *)
EXTENDS Voice, Json
CONSTANTS NStates, Shapes, Salts, Stages, WinSets
VARIABLE f
\* the family member is chosen in two steps (not in Init) so that TLC's workers share the enumeration;
\* nstream = 0 marks an incomplete choice
F0 == [nstate |-> 0, nstream |-> 0, winset |-> 1, stage |-> 0, gv |-> FALSE, shape |-> 0, quoted |-> FALSE, salt |-> 0]
Init == f = F0
Next == \/ f = F0 /\ \E ns \in NStates, sh \in Shapes, sa \in Salts, sg \in Stages :
                      f' = [F0 EXCEPT !.nstate = ns, !.shape = sh, !.salt = sa, !.stage = sg]
        \/ f # F0 /\ f.nstream = 0 /\ \E n \in {2, 3}, w \in WinSets, g \in BOOLEAN, q \in BOOLEAN :
                      f' = [f EXCEPT !.nstream = n, !.winset = w, !.gv = g, !.quoted = q]
Spec == Init /\ [][Next]_f
ModelSays(m, states) == [trees |-> Len(m.trees),
    sel |-> [st \in 1..Len(states) |-> [l \in 1..NL |-> Select(m, states[st], l)]],
    pdfs |-> m.pdfs]
Says(v) == [rate |-> v.rate, fperiod |-> v.fperiod, nstate |-> v.nstate, nstream |-> Len(v.streams),
   dur |-> ModelSays(v.dur, <<2>>),
   streams |-> [s \in 1..Len(v.streams) |-> LET st == v.streams[s] IN
      [name |-> st.name, vlen |-> st.vlen, msd |-> st.msd, nwin |-> Len(st.wins), usegv |-> st.usegv, opts |-> st.opts,
       wins |-> st.wins, model |-> ModelSays(st.model, [i \in 1..v.nstate |-> i + 1]),
       gv |-> IF st.usegv THEN ModelSays(st.gv, <<2>>) ELSE [trees |-> 0, sel |-> <<>>, pdfs |-> <<>>]]],
   gvoff |-> [l \in 1..NL |-> GvOffTable[l]]]
Emit == f.nstream = 0 \/ LET v == Doc(f) IN DocOK(v) /\ PrintT(<<"CASE", ToJson([fam |-> f, voice |-> Render(v), says |-> Says(v)])>>)
====
