CONSTANTS NStates = {1, 3}  Shapes = {0, 2, 3, 5}  Salts = {0, 1}  Stages = {0, 2}  WinSets = {1, 3}
SPECIFICATION Spec
INVARIANTS WellFormed WalksEndInPdf PoolSplits RootBothWays OffsetsContiguous
CHECK_DEADLOCK FALSE
