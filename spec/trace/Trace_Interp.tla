---- MODULE Trace_Interp ----
(* Trace validation for C10 on real voices (bundled voice + PDF-perturbed copies), I->S.
   Events (harness vset-record):
     mix{q, stream, k[], pv[][], val[]}   one interpolated Gaussian word vector: weights k[v]/64 (exact),
                                          per-voice selected words pv[v][j] and interpolated words val[j] in units of 2^-12 (rounded)
     vertex{mix, single}                  waveform digests: weights (..,1,..) vs that voice alone
     ident{ulps}                          identical voices blended with valid weights: max distance in ulps to the single voice's value
   The weighted-average law is evaluated here in integers; tolerance = accumulated quantisation error. *)
EXTENDS Integers, Sequences, TLC, Json, IOUtils
Rec == ndJsonDeserialize(IOEnv.TRACE)
Abs(x) == IF x < 0 THEN -x ELSE x
RECURSIVE SumF(_,_,_)
SumF(f(_), lo, hi) == IF lo > hi THEN 0 ELSE f(lo) + SumF(f, lo + 1, hi)
VARIABLE l
Init == l = 1
IsEv(e) == l <= Len(Rec) /\ Rec[l].ev = e /\ l' = l + 1
MixLaw(e) == LET nv == Len(e.k)
                 sumk == SumF(LAMBDA v : e.k[v], 1, nv)
                 tol == SumF(LAMBDA v : Abs(e.k[v]), 1, nv) \div 2 + 32 + 2
             IN /\ sumk = 64                                     \* the recorder only uses valid weights
                /\ \A v \in 1..nv : Len(e.pv[v]) = Len(e.val)
                /\ \A j \in 1..Len(e.val) :
                      Abs(64 * e.val[j] - SumF(LAMBDA v : e.k[v] * e.pv[v][j], 1, nv)) <= tol
Mix == IsEv("mix") /\ MixLaw(Rec[l])
Vertex == IsEv("vertex") /\ Rec[l].mix = Rec[l].single
Ident == IsEv("ident") /\ Rec[l].ulps <= 64
\* the engine's trajectories under a voice set = the public pipeline's under the same weights (each quantity its own vector)
Wiring == IsEv("wiring") /\ Rec[l].equal
Next == Mix \/ Vertex \/ Ident \/ Wiring
Spec == Init /\ [][Next]_l
Accepted == IF TLCGet("stats").diameter - 1 = Len(Rec) THEN TRUE
            ELSE Print(<<"REJECT at", TLCGet("stats").diameter>>, FALSE)
====
