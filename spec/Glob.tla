------------------------------- MODULE Glob -------------------------------
(* HTS wildcard matching of a question pattern against a label text:
   '*' matches any (possibly empty) run of characters, '?' matches exactly one character,
   every other character matches itself; the match is anchored at both ends.

   MatchDef is the textbook definition; Match is the segment algorithm (split at '*',
   first / last segment anchored, middle segments placed leftmost) which is fast enough for
   150-character labels.  MC_Glob checks MatchDef = Match on all small pattern/text pairs. *)
EXTENDS Integers, Sequences

RECURSIVE MatchDef(_,_)
MatchDef(p, t) ==
  IF p = "" THEN t = ""
  ELSE IF SubSeq(p,1,1) = "*"
       THEN MatchDef(SubSeq(p,2,Len(p)), t) \/ (t # "" /\ MatchDef(p, SubSeq(t,2,Len(t))))
       ELSE /\ t # ""
            /\ (SubSeq(p,1,1) = "?" \/ SubSeq(p,1,1) = SubSeq(t,1,1))
            /\ MatchDef(SubSeq(p,2,Len(p)), SubSeq(t,2,Len(t)))

\* position of the first '*' in p at or after i, or 0
RECURSIVE StarFrom(_,_)
StarFrom(p, i) == IF i > Len(p) THEN 0 ELSE IF SubSeq(p,i,i) = "*" THEN i ELSE StarFrom(p, i+1)

\* segment seg (no '*') matches t at position k (1-based)
SegAt(seg, t, k) == /\ k >= 1 /\ k + Len(seg) - 1 <= Len(t)
                    /\ \A u \in 1..Len(seg) : SubSeq(seg,u,u) = "?" \/ SubSeq(seg,u,u) = SubSeq(t,k+u-1,k+u-1)

\* leftmost position >= from where seg matches, or 0
RECURSIVE Find(_,_,_)
Find(seg, t, from) == IF from + Len(seg) - 1 > Len(t) THEN 0
                      ELSE IF SegAt(seg, t, from) THEN from ELSE Find(seg, t, from+1)

\* after a star: remaining pattern r, next unmatched text position pos
RECURSIVE AfterStar(_,_,_)
AfterStar(r, t, pos) ==
  IF r = "" THEN TRUE
  ELSE LET s == StarFrom(r, 1) IN
    IF s = 0 THEN Len(t) - Len(r) + 1 >= pos /\ SegAt(r, t, Len(t) - Len(r) + 1)
    ELSE LET seg == SubSeq(r, 1, s-1)  rest == SubSeq(r, s+1, Len(r)) IN
         IF seg = "" THEN AfterStar(rest, t, pos)
         ELSE LET k == Find(seg, t, pos) IN k # 0 /\ AfterStar(rest, t, k + Len(seg))

Match(p, t) ==
  LET s == StarFrom(p, 1) IN
  IF s = 0 THEN Len(p) = Len(t) /\ SegAt(p, t, 1)
  ELSE SegAt(SubSeq(p,1,s-1), t, 1) /\ AfterStar(SubSeq(p,s+1,Len(p)), t, s)

\* a question holds for a label iff one of its patterns matches
QTest(pats, label) == \E i \in 1..Len(pats) : Match(pats[i], label)
=============================================================================
