---- MODULE MC_Align ----
(* Alignment laws (C09) over all annotation patterns of up to NL labels:
   AlignLaw: at every known end the cumulative frame count is round(end) unless the group is
   infeasible (fewer frames than states), in which case every state of the group has one frame;
   NoVanish: every state of every label receives a duration (trailing unknown ends fall back to
   the model durations); FillLaw: an unknown end inherits the next label's start and vice versa. *)
EXTENDS Duration, TLC
CONSTANTS NL, NState, Ends, Starts, ParamSets
E == 4
EndsFull == {-4, 0, 6, 10, 13, 24, 40}
StartsFull == {-4, 0, 6, 24}
EndsSmall == {-4, 0, 6, 13, 24}
StartsSmall == {-4, 6}
VARIABLES times, ps, ns, phase
vars == <<times, ps, ns, phase>>
PM == << <<6, 3, 9, 5, 12, 2>>, <<4, 4, 4, 4, 4, 4>>, <<10, 1, 7, 2, 3, 11>> >>
PV == << <<4, 1, 9, 4, 1, 4>>, <<4, 4, 4, 4, 4, 4>>, <<1, 9, 4, 4, 9, 1>> >>
Init == times = <<>> /\ ps = 1 /\ ns = 1 /\ phase = 0
Next == \/ phase = 0 /\ \E n \in NL, p \in ParamSets, s \in NState : times' = [i \in 1..n |-> <<-4, -4>>] /\ ps' = p /\ ns' = s /\ phase' = 1
        \/ phase = 1 /\ \E t \in [1..Len(times) -> Starts \X Ends] : times' = t /\ phase' = 2 /\ UNCHANGED <<ps, ns>>
Spec == Init /\ [][Next]_vars
Filled == FillTimes(times)
M == SubSeq(PM[ps], 1, Len(times) * ns)
V == SubSeq(PV[ps], 1, Len(times) * ns)
G == Align(M, V, ns, [k \in 1..Len(times) |-> Filled[k][2]], E)
RECURSIVE CumBefore(_,_)
CumBefore(g, i) == IF i = 0 THEN 0 ELSE CumBefore(g, i - 1) + Max2(g[i].target, g[i].hi - g[i].lo + 1)
AlignLaw == phase = 2 => \A i \in 1..Len(G) : G[i].known =>
              LET size == G[i].hi - G[i].lo + 1
                  endq == Filled[G[i].hi \div ns][2]
              IN /\ G[i].set # {}
                 /\ IF G[i].target > size
                      THEN \A d \in G[i].set : CumBefore(G, i - 1) + Sum(d) = RoundHalfAway(endq, E)
                      ELSE G[i].set = {Ones(size)}
Covers == phase = 2 => /\ (Len(G) > 0 => G[1].lo = 1 /\ G[Len(G)].hi = Len(M))
                       /\ \A i \in 1..(Len(G) - 1) : G[i + 1].lo = G[i].hi + 1
                       /\ (Len(times) > 0 => Len(G) > 0)
NoVanish == phase = 2 => \A i \in 1..Len(G) : \A d \in G[i].set : Len(d) = G[i].hi - G[i].lo + 1 /\ \A j \in 1..Len(d) : d[j] >= 1
FillLaw == phase = 2 => \A k \in 1..Len(times) :
             /\ (times[k][2] >= 0 => Filled[k][2] = times[k][2])
             /\ (times[k][2] < 0 /\ k < Len(times) /\ times[k+1][1] >= 0 => Filled[k][2] = times[k+1][1])
             /\ (times[k][2] < 0 /\ (k = Len(times) \/ times[k+1][1] < 0) => Filled[k][2] = -1)
====
