-------------------------------- MODULE Mlpg --------------------------------
(* Maximum-likelihood parameter generation as an exact integer law (C05, DESIGN 3.6).

   An instance e (all integers):
     dur[s]          frames of state s                         msd8[s], thr8   voicing weight / threshold in eighths
     wins[w][j]      window coefficients x 8 (w = 1 is the static window)       vlen  vector length
     mean8[s][m]     means x 8,  prec4[s][m]  precisions (1/variance) x 4,  m = vlen (w-1) + k + 1
   Semantics (the definition the property quotes):
     frame t takes the Gaussians of the state its duration assigns; it is voiced iff msd8 > thr8 (all frames are
     voiced for streams without voicing weights: msd8 = 99); the static sequence c is defined on the voiced frames
     only, neighbours being taken in the voiced-only sequence; the observation "window w applied at voiced
     position q equals mean" has precision prec, except that for w > 1 it is dropped (precision 0) when the
     window's span touches an unvoiced frame or the utterance edge: left distance < floor(width/2) or right
     distance < width - 1 - floor(width/2); taps that fall outside the voiced sequence contribute nothing.
   The ML solution satisfies the normal equations  R c = r,  R = W' P W,  r = W' P mu.  With the scalings above
   R_true = Rint / 256 and r_true = rint / 256, so  Rint c = rint. *)
EXTENDS Integers, Sequences, TLC

Abs(x) == IF x < 0 THEN -x ELSE x
RECURSIVE SumF(_,_,_)
SumF(f(_), lo, hi) == IF lo > hi THEN 0 ELSE f(lo) + SumF(f, lo + 1, hi)
RECURSIVE Expand(_,_)
Expand(dur, s) == IF s > Len(dur) THEN <<>> ELSE [i \in 1..dur[s] |-> s] \o Expand(dur, s + 1)
Voiced(e, F) == [t \in 1..Len(F) |-> e.msd8[F[t]] > e.thr8]
RECURSIVE LeftD(_,_), RightD(_,_)
LeftD(V, t)  == IF t = 1 \/ ~V[t-1] THEN 0 ELSE 1 + LeftD(V, t - 1)
RightD(V, t) == IF t = Len(V) \/ ~V[t+1] THEN 0 ELSE 1 + RightD(V, t + 1)
RECURSIVE Keep(_,_)
Keep(V, t) == IF t > Len(V) THEN <<>> ELSE (IF V[t] THEN <<t>> ELSE <<>>) \o Keep(V, t + 1)

\* everything about an instance that does not depend on the trajectory, bound once
CtxOf(F, V, K) == [F |-> F, V |-> V, K |-> K,
   LD |-> [t \in 1..Len(F) |-> IF V[t] THEN LeftD(V, t) ELSE 0],
   RD |-> [t \in 1..Len(F) |-> IF V[t] THEN RightD(V, t) ELSE 0]]
Ctx(e) == CHOOSE r \in UNION { UNION { { CtxOf(F, V, K) : K \in {Keep(V, 1)} } : V \in {Voiced(e, F)} } : F \in {Expand(e.dur, 1)} } : TRUE
\* precision (x4) of the observation of window w at frame t for vector index k (0-based)
P4(e, c, w, t, k) ==
  LET width == Len(e.wins[w])  lw == width \div 2  rw == width - lw - 1 IN
  IF w # 1 /\ (c.LD[t] < lw \/ c.RD[t] < rw) THEN 0 ELSE e.prec4[c.F[t]][e.vlen * (w - 1) + k + 1]
M8(e, c, w, t, k) == e.mean8[c.F[t]][e.vlen * (w - 1) + k + 1]
\* coefficient (x8) that the observation of window w centred at voiced position q puts on voiced position b
Coef(e, w, q, b) == LET width == Len(e.wins[w])  j == b - q + (width \div 2) + 1 IN
                    IF j >= 1 /\ j <= width THEN e.wins[w][j] ELSE 0
MaxHalf(e) == LET RECURSIVE Mx(_) Mx(w) == IF w > Len(e.wins) THEN 0 ELSE LET h == Len(e.wins[w]) \div 2  r == Mx(w + 1) IN IF h > r THEN h ELSE r IN Mx(1)
\* per vector index k: precision and mean of every observation (window w at voiced position q), tabulated once
PTab(e, c, k) == [w \in 1..Len(e.wins) |-> [q \in 1..Len(c.K) |-> P4(e, c, w, c.K[q], k)]]
MTab(e, c, k) == [w \in 1..Len(e.wins) |-> [q \in 1..Len(c.K) |-> M8(e, c, w, c.K[q], k)]]
RintT(e, n, h, PT, a, b) ==
  SumF(LAMBDA w : SumF(LAMBDA q : IF q >= 1 /\ q <= n THEN PT[w][q] * Coef(e, w, q, a) * Coef(e, w, q, b) ELSE 0, a - h, a + h), 1, Len(e.wins))
rintT(e, n, h, PT, MT, a) ==
  SumF(LAMBDA w : SumF(LAMBDA q : IF q >= 1 /\ q <= n THEN PT[w][q] * Coef(e, w, q, a) * MT[w][q] ELSE 0, a - h, a + h), 1, Len(e.wins))
Rint(e, c, a, b, k) == RintT(e, Len(c.K), MaxHalf(e), PTab(e, c, k), a, b)
rint(e, c, a, k) == rintT(e, Len(c.K), MaxHalf(e), PTab(e, c, k), MTab(e, c, k), a)

\* ---- the law: a trajectory logged in four limbs of three decimal digits (value x 1000 = l1 + l2/1e3 + l3/1e6 + l4/1e9, l2..l4 in
\* 0..999, the last one rounded) solves R c = r "to rounding accuracy": the residual, accumulated limb by limb so that every
\* intermediate stays far inside 32 bits, is bounded by the quantisation of the last limb (half a unit of 1e-12 per unit of |R|) plus
\* as much again for the solver's own rounding (a backward-stable band solve leaves a residual orders of magnitude smaller).
\* (TLC re-evaluates LET definitions at every use inside actions; values are therefore bound with
\*  "\A x \in {expr}", which evaluates expr once)
RowOK(e, c, h, PT, MT, a, k) ==
  LET n == Len(c.K)
      lo == IF a - 2 * h < 1 THEN 1 ELSE a - 2 * h    hi == IF a + 2 * h > n THEN n ELSE a + 2 * h
  IN \A Row \in {[b \in lo..hi |-> RintT(e, n, h, PT, a, b)]} :                \* the row of R, computed once
     \A L1 \in {SumF(LAMBDA b : Abs(Row[b]), lo, hi)} :
     \A D \in {SumF(LAMBDA b : Row[b] * e.traj[c.K[b]][k+1][1], lo, hi) - 1000 * rintT(e, n, h, PT, MT, a)} :
     /\ Abs(D) <= L1 + 2
     /\ \A X1 \in {1000 * D + SumF(LAMBDA b : Row[b] * e.traj[c.K[b]][k+1][2], lo, hi)} :
          /\ Abs(X1) <= L1 + 2
          /\ \A X2 \in {1000 * X1 + SumF(LAMBDA b : Row[b] * e.traj[c.K[b]][k+1][3], lo, hi)} :
               /\ Abs(X2) <= L1 + 2
               /\ Abs(1000 * X2 + SumF(LAMBDA b : Row[b] * e.traj[c.K[b]][k+1][4], lo, hi)) <= L1 + 2
Law(e) == \A c \in {Ctx(e)} : \A h \in {MaxHalf(e)} :
  /\ Len(e.traj) = Len(c.F) /\ Len(e.nodata) = Len(c.F)
  /\ \A t \in 1..Len(c.F) : e.nodata[t] = ~c.V[t]                        \* unvoiced frames carry the no-data marker
  /\ \A k \in 0..(e.vlen - 1) : \A PT \in {PTab(e, c, k)} : \A MT \in {MTab(e, c, k)} :
        \A a \in 1..Len(c.K) : RowOK(e, c, h, PT, MT, a, k)

\* ---- structural facts about R (MC_Mlpg): symmetric, positive diagonal, voiced islands decouple
Symmetric(e) == \A c \in {Ctx(e)} : \A a, b \in 1..Len(c.K) : Rint(e, c, a, b, 0) = Rint(e, c, b, a, 0)
DiagPositive(e) == \A c \in {Ctx(e)} : \A a \in 1..Len(c.K) : Rint(e, c, a, a, 0) > 0
Island(c, a) == a - c.LD[c.K[a]]                 \* voiced position where a's island starts
Decoupled(e) == \A c \in {Ctx(e)} : \A a, b \in 1..Len(c.K) : Island(c, a) # Island(c, b) => Rint(e, c, a, b, 0) = 0
ThresholdMonotone(e) == LET F == Expand(e.dur, 1) IN
   \A t \in 1..Len(F) : Voiced([e EXCEPT !.thr8 = e.thr8 + 1], F)[t] => Voiced(e, F)[t]
=============================================================================
