---- MODULE MC_Duration ----
(* Laws of the duration algorithm checked exhaustively on small parameter spaces (C08, C09):
   SumLaw, Floor1, termination (non-empty result), speed-1 law, monotonicity in speed, AlignLaw. *)
EXTENDS Duration, TLC
CONSTANTS N, Means, Varis, MaxT
VARIABLES m, v, T, phase
vars == <<m, v, T, phase>>
Seqs(S, n) == [1..n -> S]
Init == m = <<>> /\ v = <<>> /\ T = 0 /\ phase = 0
Next == \/ phase = 0 /\ \E n \in N : \E mm \in Seqs(Means, n) : m' = mm /\ v' = <<>> /\ T' = 0 /\ phase' = 1
        \/ phase = 1 /\ \E vv \in Seqs(Varis, Len(m)) : \E t \in 1..MaxT : v' = vv /\ T' = t /\ m' = m /\ phase' = 2
Spec == Init /\ [][Next]_vars

R == WithLength(m, v, T)
Terminates == phase = 2 => R # {}
SumLaw     == phase = 2 => \A d \in R : Sum(d) = Max2(T, Len(m))
Floor1     == phase = 2 => \A d \in R : \A i \in 1..Len(d) : d[i] >= 1
NoVanish   == phase = 2 => \A d \in R : Len(d) = Len(m)
\* speed law: total at speed p/q is max(round(F1 q / p), n); non-increasing in speed (checked on the speed grid)
Speeds == << <<1,4>>, <<1,2>>, <<3,4>>, <<1,1>>, <<5,4>>, <<3,2>>, <<2,1>>, <<4,1>>, <<8,1>> >>
TotalAt(k) == LET F1 == Sum(Est0(m)) IN
              IF Speeds[k][1] = Speeds[k][2] THEN F1 ELSE Max2(Target(F1 * Speeds[k][2], Speeds[k][1]), Len(m))
SpeedLaw == phase = 2 => \A k \in 1..Len(Speeds) :
               \A d \in Create(m, v, Speeds[k][1], Speeds[k][2]) : Sum(d) = TotalAt(k) /\ \A i \in 1..Len(d) : d[i] >= 1
Monotone == phase = 2 => \A k \in 1..(Len(Speeds) - 1) : TotalAt(k) >= TotalAt(k + 1)
Speed1   == phase = 2 => Create(m, v, 1, 1) = {[i \in 1..Len(m) |-> Max2(1, RoundHalfAway(m[i], D))]}
====
