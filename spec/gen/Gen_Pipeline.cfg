CONSTANTS D = 4  NStates = {1, 3}  Shapes = {0, 3}  Salts = {0, 1}  Stages = {0, 2}  WinSets = {1, 3, 5, 7}
  MaxUttStates = 10  MaxLabels = 2  LabelIdx = {1, 7}  CondIdx = {1, 2, 3, 5, 6, 7}
SPECIFICATION Spec
INVARIANTS Emit EmitVoice
CHECK_DEADLOCK FALSE
