//! Dumb renderer: turns the specification's rendered voice (header lines + data tokens) into bytes.
//! It knows nothing about trees, PDFs or indices (DESIGN 2.2).
use crate::util::*;
use serde_json::Value;

pub fn render(voice: &Value) -> Vec<u8> {
    let mut out: Vec<u8> = Vec::new();
    for line in va(&voice["header"]) {
        out.extend_from_slice(vs(line).as_bytes());
        out.push(b'\n');
    }
    for tok in va(&voice["data"]) {
        match vs(&tok["t"]) {
            "u32" => out.extend_from_slice(&(vi(&tok["v"]) as u32).to_le_bytes()),
            "f32" => {
                // k = 99 marks the float32 NEGATIVE zero (sign bit set), which no dyadic n / 2^k can denote
                let x = if vu(&tok["k"]) == 99 { -0.0f64 } else { vi(&tok["n"]) as f64 / (1u64 << vu(&tok["k"])) as f64 };
                out.extend_from_slice(&(x as f32).to_le_bytes());
            }
            "txt" => out.extend_from_slice(vs(&tok["s"]).as_bytes()),
            other => die(&format!("unknown token type {}", other)),
        }
    }
    out
}

/// Write bytes to a scratch file under /verif/work/tmp and return its path.
pub fn scratch(bytes: &[u8], tag: &str) -> String {
    let dir = std::env::var("VERIF_TMP").unwrap_or_else(|_| "/verif/work/tmp".to_string());
    std::fs::create_dir_all(&dir).ok();
    let path = format!("{}/{}_{}_{:?}.htsvoice", dir, tag, std::process::id(), std::thread::current().id());
    let path = path.replace("ThreadId(", "t").replace(')', "");
    std::fs::write(&path, bytes).unwrap_or_else(|e| die(&format!("write {}: {}", path, e)));
    path
}
