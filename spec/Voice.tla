------------------------------- MODULE Voice -------------------------------
(* What a conforming reader obtains from a VoiceDoc (selection semantics, C04) and the
   family of tiny voices that TLC enumerates (DESIGN 2.2, "Voices(small)").

   Selection: for a model, a state index (2-based) and a label, take the tree whose state tag
   equals the state (tree position p, 0-based, reported as p + 2), walk it from its first row
   following `yes` iff the row's question holds for the label (HTS wildcard matching of any of
   its patterns, Glob!QTest) and `no` otherwise until a PDF leaf; the 1-based PDF index selects
   the words pdfs[p+1][index] of that tree. *)
EXTENDS VoiceFile, Glob, LabelData, QuestionPool, FiniteSets

NL == Len(LabelTable)
NQ == Len(QuestionTable)
\* truth table question x label, evaluated once (constant-level definitions are cached by TLC)
QTable == [q \in 1..NQ |-> [l \in 1..NL |-> QTest(QuestionTable[q].pats, LabelTable[l])]]
QIdx(name) == CHOOSE q \in 1..NQ : QuestionTable[q].name = name
GvOffPats == <<"*-sil+*", "*-pau+*">>
GvOffTable == [l \in 1..NL |-> QTest(GvOffPats, LabelTable[l])]

RowOf(nodes, id) == CHOOSE r \in 1..Len(nodes) : nodes[r].id = id
RECURSIVE WalkFrom(_,_,_,_)
WalkFrom(nodes, row, l, fuel) ==
  IF fuel = 0 THEN 0                      \* cyclic tree: no leaf (never for DocOK documents)
  ELSE LET nd == nodes[row]
           c  == IF QTable[QIdx(nd.q)][l] THEN nd.yes ELSE nd.no
       IN IF c.k = "p" THEN c.v ELSE WalkFrom(nodes, RowOf(nodes, c.v), l, fuel - 1)
Walk(t, l) == IF t.nodes = <<>> THEN t.leaf ELSE WalkFrom(t.nodes, 1, l, Len(t.nodes))

TreePos(m, state) == CHOOSE p \in 1..Len(m.trees) : m.trees[p].state = state /\ \A r \in 1..(p-1) : m.trees[r].state # state
HasTree(m, state) == \E p \in 1..Len(m.trees) : m.trees[p].state = state
\* <<reported tree index, pdf index>>
Select(m, state, l) == LET p == TreePos(m, state) IN <<p + 1, Walk(m.trees[p], l)>>
Words(m, state, l) == LET s == Select(m, state, l) IN m.pdfs[s[1] - 1][s[2]]

--------------------------------------------------------------------------
(* The voice family *)
N(i) == [k |-> "n", v |-> i]
P(i) == [k |-> "p", v |-> i]
Row(id, q, no, yes) == [id |-> id, q |-> QuestionTable[q].name, no |-> no, yes |-> yes]
\* tree shapes; q = three pool indices
Shape(kind, st, q) ==
  CASE kind = 0 -> [state |-> st, nodes |-> <<>>, leaf |-> 1]
    [] kind = 1 -> [state |-> st, leaf |-> 0, nodes |-> << Row(0, q[1], P(1), P(2)) >>]
    [] kind = 2 -> [state |-> st, leaf |-> 0, nodes |-> << Row(0, q[1], N(-1), P(3)), Row(-1, q[2], P(1), P(2)) >>]
    [] kind = 3 -> [state |-> st, leaf |-> 0, nodes |-> << Row(0, q[1], P(2), N(-1)), Row(-1, q[2], P(3), P(1)) >>]
    [] kind = 4 -> [state |-> st, leaf |-> 0, nodes |-> << Row(0, q[1], N(-1), N(-2)), Row(-1, q[2], P(1), P(2)),
                                                          Row(-2, q[3], P(2), P(3)) >>]
    [] kind = 5 -> [state |-> st, leaf |-> 0, nodes |-> << Row(0, q[1], N(-7), N(-3)), Row(-3, q[2], P(3), P(1)),
                                                          Row(-7, q[3], P(2), P(2)) >>]
NPdf(kind) == CASE kind = 0 -> 1 [] kind = 1 -> 2 [] OTHER -> 3
QsOf(kind, q) == LET n == CASE kind = 0 -> 0 [] kind = 1 -> 1 [] kind \in {2, 3} -> 2 [] OTHER -> 3
                 IN [i \in 1..n |-> QuestionTable[q[i]]]
\* three distinct pool indices derived from a salt
QPick(salt) == << 1 + (salt % NQ), 1 + ((salt + 7) % NQ), 1 + ((salt + 13) % NQ) >>

Fam == [nstate : Nat, nstream : {2, 3}, winset : 1..8, stage : 0..2, gv : BOOLEAN, shape : 0..5,
        quoted : BOOLEAN, salt : Nat]

\* window sets (coefficients in dyadics)
WStatic == << <<1, 0>> >>
WDelta  == << <<-1, 1>>, <<0, 0>>, <<1, 1>> >>
WAccel  == << <<1, 0>>, <<-2, 0>>, <<1, 0>> >>
WDelta5 == << <<-1, 2>>, <<-1, 1>>, <<0, 0>>, <<1, 1>>, <<1, 2>> >>      \* width 5
WAccel5 == << <<1, 2>>, <<0, 0>>, <<-1, 1>>, <<0, 0>>, <<1, 2>> >>
WFwd == << <<0, 0>>, <<-1, 0>>, <<1, 0>> >>                                  \* "3 0 -1 1": c[t+1] - c[t]
WStatic3 == << <<0, 0>>, <<1, 0>>, <<0, 0>> >>                            \* the same static window, declared with zero-weight neighbours
\* the standard HTS five-frame regression windows, as decimal fractions (<<n, -e>> = n / 10^e)
WDelta5d == << <<-2, -1>>, <<-1, -1>>, <<0, 0>>, <<1, -1>>, <<2, -1>> >>
WAccel5d == << <<285714, -6>>, <<-142857, -6>>, <<-285714, -6>>, <<-142857, -6>>, <<285714, -6>> >>
WinSet(k) == CASE k = 1 -> << WStatic >> [] k = 2 -> << WStatic, WDelta >> [] k = 3 -> << WStatic, WDelta, WAccel >>
               [] k = 4 -> << WStatic, WDelta5, WAccel5 >>
               [] k = 5 -> << WStatic3, WDelta >>
               [] k = 6 -> << WStatic, WDelta5d, WAccel5d >>
               [] k = 7 -> << WStatic, WDelta5, WAccel >>          \* the widest window is not the last one
               [] k = 8 -> << WStatic3, WFwd, WAccel >>           \* zero taps at one end only: a forward difference

\* ---- PDF words (all dyadic).  h mixes the indices into a small number.
Mix(a, b, c, d) == (a * 7 + b * 13 + c * 5 + d * 3)
\* salt as seen by the PDF words: siblings f.salt + 6k (same structure: vector lengths, options, GV flags) get different words
WSalt(f) == f.salt + (f.salt \div 6)
DurWords(f, pdf) ==    \* nstate means in quarters in [1/2, 13/4], then nstate variances in {1/4,1/2,3/4}
  [i \in 1..f.nstate |-> << 2 + (Mix(pdf, i, WSalt(f), 0) % 12), 2 >>] \o
  [i \in 1..f.nstate |-> << 1 + (Mix(pdf, i, WSalt(f), 1) % 3), 2 >>]
McpVlen(f) == 3 + (f.salt % 2)
McpMean(f, tp, pdf, w, i) ==
  IF w > 1 THEN << (Mix(tp, pdf, i, WSalt(f)) % 5) - 2, 5 >>                         \* dynamic features: +-1/16
  ELSE IF f.stage = 0 THEN (IF i = 1 THEN << (Mix(tp, pdf, 1, WSalt(f)) % 9) - 4, 4 >>       \* c0 in +-1/4
                                      ELSE << (Mix(tp, pdf, i, WSalt(f)) % 5) - 2, 4 >>)     \* c_m in +-1/8
  ELSE IF i = 1 THEN (IF f.salt % 3 = 1 THEN << (Mix(tp, pdf, 1, WSalt(f)) % 3) - 1, 2 >>    \* log gain in {-1/4,0,1/4}
                                         ELSE << 4 + (Mix(tp, pdf, 1, WSalt(f)) % 3), 2 >>)   \* gain in {1, 5/4, 3/2}
  ELSE << 48 * (i - 1) + (Mix(tp, pdf, i, WSalt(f)) % 7) - 3, 6 - (IF McpVlen(f) = 3 THEN 0 ELSE 0) >>   \* LSP: 0.75*(i-1) +- 3/64
LnGain(f) == f.salt % 3 = 1
StreamWords(f, name, vlen, nwin, msd, tp, pdf) ==
  LET n == vlen * nwin
      mean(j) == LET w == ((j - 1) \div vlen) + 1  i == ((j - 1) % vlen) + 1 IN
                 CASE name = "MCP" -> McpMean(f, tp, pdf, w, i)
                   [] name = "LF0" -> IF w = 1 THEN << 18 + (Mix(tp, pdf, 0, WSalt(f)) % 4), 2 >>     \* 4.5 .. 5.25
                                      ELSE << (Mix(tp, pdf, w, WSalt(f)) % 3) - 1, 5 >>
                   \* LPF taps: they differ from state to state and (vlen = 3) are not symmetric about the centre tap
                   [] OTHER -> IF vlen = 1 THEN << 3 + (Mix(tp, pdf, 0, WSalt(f)) % 3), 2 >>          \* 3/4, 1, 5/4
                               ELSE (IF i = 2 THEN << 1, 1 >> ELSE IF i = 1 THEN << 1 + (Mix(tp, pdf, 1, WSalt(f)) % 2), 2 >> ELSE << 1, 3 >>)
      vari(j) == << 1 + (Mix(tp, j, WSalt(f) + 1, pdf) % 3), 2 >>                                   \* 1/4, 1/2, 3/4
  IN [j \in 1..n |-> mean(j)] \o [j \in 1..n |-> vari(j)] \o
     \* voicing weights 1/8, 3/8, 5/8, 7/8 - and, for one PDF in six, a value outside [0, 1] (9/8 or -1/8): the format does not
     \* restrict the entry, a reader must hand it on unchanged (such a state is voiced / unvoiced at every threshold in [0, 1])
     (IF msd THEN (LET k == Mix(tp, pdf, 2, WSalt(f)) % 12 IN
                   << IF k = 10 THEN << 9, 3 >> ELSE IF k = 11 THEN << -1, 3 >> ELSE << 1 + 2 * (k % 4), 3 >> >>) ELSE <<>>)
GvWords(f, vlen, pdf) == [i \in 1..vlen |-> << 1 + (Mix(pdf, i, WSalt(f), 2) % 3), 6 >>] \o       \* GV mean 1/64 .. 3/64
                         [i \in 1..vlen |-> << 1 + (Mix(pdf, i, WSalt(f), 1) % 2), 2 >>]

DurModel(f) == LET k == f.shape  q == QPick(f.salt) IN
  [qs |-> QsOf(k, q), trees |-> << Shape(k, 2, q) >>, pdfs |-> << [p \in 1..NPdf(k) |-> DurWords(f, p)] >>]
StreamModel(f, name, vlen, nwin, msd, sidx) ==
  LET kind(tp) == IF name = "LPF" THEN 0 ELSE (f.shape + tp + sidx) % 6
      q(tp) == QPick(f.salt + 3 * tp + 5 * sidx)
      used == UNION { { q(tp)[i] : i \in 1..Len(QsOf(kind(tp), q(tp))) } : tp \in 1..f.nstate }
      qseq == SelectSeq([i \in 1..NQ |-> i], LAMBDA i : i \in used)
      \* the format does not prescribe the order of a model's trees: the k-th PDF block belongs to the k-th tree of the
      \* file, whatever its state tag.  Odd salts write the trees (and their blocks) in descending state order.
      at(k) == IF f.salt % 2 = 1 THEN f.nstate + 1 - k ELSE k
  IN [qs |-> [i \in 1..Len(qseq) |-> QuestionTable[qseq[i]]],
      trees |-> [k \in 1..f.nstate |-> Shape(kind(at(k)), at(k) + 1, q(at(k)))],
      pdfs |-> [k \in 1..f.nstate |-> [p \in 1..NPdf(kind(at(k))) |-> StreamWords(f, name, vlen, nwin, msd, at(k), p)]]]
GvModel(f, vlen, sidx) == LET k == (f.shape + sidx) % 2  q == QPick(f.salt + 11 * sidx) IN
  [qs |-> QsOf(k, q), trees |-> << Shape(k, 2, q) >>, pdfs |-> << [p \in 1..NPdf(k) |-> GvWords(f, vlen, p)] >>]
NoModel == [qs |-> <<>>, trees |-> <<>>, pdfs |-> <<>>]

\* spectrum-stream options: the order of the keys is free in the format, and LN_GAIN may be written without GAMMA
McpOpts(f) == IF f.stage = 0 THEN (IF LnGain(f) THEN << "LN_GAIN=1", "ALPHA=0.25" >> ELSE << "ALPHA=0.25" >>)
              ELSE IF f.quoted THEN << "ALPHA=0.25", "LN_GAIN=" \o (IF LnGain(f) THEN "1" ELSE "0"), "GAMMA=" \o ToString(f.stage) >>
              ELSE << "GAMMA=" \o ToString(f.stage), "LN_GAIN=" \o (IF LnGain(f) THEN "1" ELSE "0"), "ALPHA=0.25" >>
Stream(f, name, pre, vlen, wins, msd, opts, gv, sidx) ==
  [name |-> name, pre |-> pre, vlen |-> vlen, msd |-> msd, wins |-> wins, opts |-> opts,
   model |-> StreamModel(f, name, vlen, Len(wins), msd, sidx), usegv |-> gv,
   gv |-> IF gv THEN GvModel(f, vlen, sidx) ELSE NoModel]
Doc(f) ==
  [rate |-> 16000, fperiod |-> 4, nstate |-> f.nstate, gvoff |-> GvOffPats, quoted |-> f.quoted, revhdr |-> (f.shape % 2 = 1),
   dur |-> DurModel(f),
   streams |-> << Stream(f, "MCP", "mcp_", McpVlen(f), WinSet(f.winset), FALSE, McpOpts(f), f.gv, 0),
                  \* salts >= 1000 (used by Gen_Question only): the multi-space stream carries two coefficients per window
                  Stream(f, "LF0", "lf0_", IF f.salt >= 1000 THEN 2 ELSE 1, WinSet(f.winset), TRUE, <<>>, f.gv /\ f.salt % 2 = 0, 1) >>
              \o (IF f.nstream = 3 THEN << Stream(f, "LPF", "lpf_", 1 + 2 * (f.salt % 2), WinSet(1), FALSE, <<>>, FALSE, 2) >>
                  ELSE <<>>)]
=============================================================================
