------------------------------ MODULE Pipeline ------------------------------
(* Composition used for C01 (DESIGN 3.12): voice document x label sequence x condition ->
   state durations, total frame count F, per-frame voicing.  It chains Voice (selection),
   Duration (Create / Align) and the MLPG mask rule (a frame is voiced iff the voicing weight of
   its state exceeds the stream's threshold, strictly). *)
EXTENDS Voice, Duration

\* duration parameters of an utterance: numerators over D = 4 (the family's duration words are quarters)
DurNum(d) == d[1] * Pow2(2 - d[2])            \* dyadic with k <= 2 -> quarters
UttDur(v, labs) ==
  LET perLabel(l) == Words(v.dur, 2, l)
      ms == Flat([i \in 1..Len(labs) |-> [s \in 1..v.nstate |-> DurNum(perLabel(labs[i])[s])]])
      vs == Flat([i \in 1..Len(labs) |-> [s \in 1..v.nstate |-> DurNum(perLabel(labs[i])[v.nstate + s])]])
  IN [m |-> ms, v |-> vs]

\* voicing weight (eighths) of every state of the utterance for the LF0 stream (stream 2)
Msd8(d) == d[1] * Pow2(3 - d[2])
UttMsd(v, labs) ==
  Flat([i \in 1..Len(labs) |-> [s \in 1..v.nstate |->
        LET w == Words(v.streams[2].model, s + 1, labs[i]) IN Msd8(w[Len(w)])]])

\* condition: speed p/q, alignment flag with end marks (quarter frames per label, negative = none),
\* LF0 threshold in eighths
Durations(v, labs, c) ==
  LET u == UttDur(v, labs) IN
  IF Len(labs) = 0 THEN {<<>>}
  ELSE IF c.align THEN Product([g \in 1..Len(Align(u.m, u.v, v.nstate, c.ends, 4)) |-> Align(u.m, u.v, v.nstate, c.ends, 4)[g].set])
  ELSE Create(u.m, u.v, c.p, c.q)
\* Product of group sets yields sequences of group vectors; flatten them
FlatDur(gs) == Flat(gs)
DurationSet(v, labs, c) ==
  IF Len(labs) = 0 THEN {<<>>}
  ELSE IF c.align THEN {FlatDur(x) : x \in Durations(v, labs, c)} ELSE Durations(v, labs, c)

RECURSIVE Expand(_,_)
Expand(dur, s) == IF s > Len(dur) THEN <<>> ELSE [i \in 1..dur[s] |-> s] \o Expand(dur, s + 1)
VoicedMask(v, labs, dur, thr8) == LET F == Expand(dur, 1)  w == UttMsd(v, labs) IN [t \in 1..Len(F) |-> w[F[t]] > thr8]

\* ---- laws of the composition (MC_Pipeline)
FrameExact(v, labs, c) == \A d1, d2 \in DurationSet(v, labs, c) : Sum(d1) = Sum(d2)
AllStatesPresent(v, labs, c) == \A d \in DurationSet(v, labs, c) :
                                   Len(d) = Len(labs) * v.nstate /\ \A i \in 1..Len(d) : d[i] >= 1
EmptyIsEmpty(v, c) == DurationSet(v, <<>>, c) = {<<>>}
=============================================================================
