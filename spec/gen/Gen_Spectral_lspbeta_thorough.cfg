CONSTANTS Mode = "lspbeta"  Orders = {4, 5}  Salts = {0}  Alphas <- AlphasT  Rates <- RatesQ  Betas = {0, 1, 2, 3, 4, 6}  Stages = {1, 2, 3, 4}
SPECIFICATION Spec
INVARIANTS Emit Pre
CHECK_DEADLOCK FALSE
