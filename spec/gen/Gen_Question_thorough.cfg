CONSTANT AllPairs = TRUE
SPECIFICATION Spec
INVARIANT Emit
CHECK_DEADLOCK FALSE
