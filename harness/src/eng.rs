//! Engine-level helpers shared by recorders: utterances from the corpus, random conditions.
use crate::util::*;
use jbonsai::Engine;
use serde_json::{json, Value};

pub const SECTION_TAGS: [&str; 11] = ["/A:", "/B:", "/C:", "/D:", "/E:", "/F:", "/G:", "/H:", "/I:", "/J:", "/K:"];

/// Split a full-context label into its 12 sections (phoneme context, A..K) keeping delimiters out.
pub fn split_sections(line: &str) -> Option<Vec<String>> {
    let mut out = Vec::new();
    let mut rest = line;
    for tag in SECTION_TAGS.iter() {
        let pos = rest.find(tag)?;
        out.push(rest[..pos].to_string());
        rest = &rest[pos + tag.len()..];
    }
    out.push(rest.to_string());
    Some(out)
}

pub fn join_sections(secs: &[String]) -> String {
    let mut s = secs[0].clone();
    for (i, tag) in SECTION_TAGS.iter().enumerate() {
        s.push_str(tag);
        s.push_str(&secs[i + 1]);
    }
    s
}

/// phoneme context "p1^p2-p3+p4=p5"
pub fn split_phonemes(sec: &str) -> Option<[String; 5]> {
    let (p1, r) = sec.split_once('^')?;
    let (p2, r) = r.split_once('-')?;
    let (p3, r) = r.split_once('+')?;
    let (p4, p5) = r.split_once('=')?;
    Some([p1.into(), p2.into(), p3.into(), p4.into(), p5.into()])
}

pub struct Corpus {
    pub lines: Vec<String>,
    pub sections: Vec<Vec<String>>,
    /// the sample sentences quoted in the repository's own sources (short utterances: other utterance-length contexts)
    pub extras: Vec<String>,
}

/// full-context labels that appear as string literals in /repo/src/lib.rs (SAMPLE_SENTENCE_1 / _2)
fn sample_sentences() -> Vec<String> {
    let src = std::fs::read_to_string("/repo/src/lib.rs").unwrap_or_default();
    let mut out = Vec::new();
    for piece in src.split('"') {
        if piece.contains("/A:") && piece.contains("/K:") && !piece.contains(' ') && piece.parse::<jlabel::Label>().is_ok() {
            out.push(piece.to_string());
        }
    }
    out
}

impl Corpus {
    pub fn load() -> Self {
        let lines = corpus();
        let extras = sample_sentences();
        let sections = lines.iter().chain(extras.iter()).map(|l| split_sections(l).unwrap_or_else(|| die("corpus line without sections"))).collect();
        Corpus { lines, sections, extras }
    }
    /// A label whose 12 sections (and, inside the first, the five phonemes) are drawn independently.
    pub fn recombined(&self, rng: &mut Rng) -> String {
        let mut secs: Vec<String> = (0..12).map(|k| self.sections[rng.below(self.sections.len())][k].clone()).collect();
        let ph: Vec<String> = (0..5)
            .map(|k| split_phonemes(&self.sections[rng.below(self.sections.len())][0]).unwrap()[k].clone())
            .collect();
        secs[0] = format!("{}^{}-{}+{}={}", ph[0], ph[1], ph[2], ph[3], ph[4]);
        join_sections(&secs)
    }
    /// n labels in which earlier labels come back: the same line again, or the same phoneme context with every other
    /// section taken from other lines (a repeated word in another prosodic position)
    pub fn echoing(&self, rng: &mut Rng, n: usize) -> Vec<String> {
        let mut out: Vec<String> = Vec::new();
        for i in 0..n {
            if i > 0 && rng.chance(0.5) {
                let src = out[rng.below(out.len())].clone();
                if rng.chance(0.3) {
                    out.push(src);
                } else {
                    let mut secs = split_sections(&src).unwrap();
                    for k in 1..12 {
                        if rng.chance(0.7) {
                            secs[k] = self.sections[rng.below(self.sections.len())][k].clone();
                        }
                    }
                    out.push(join_sections(&secs));
                }
            } else {
                out.push(self.lines[rng.below(self.lines.len())].clone());
            }
        }
        out
    }
    /// n labels: consecutive corpus lines, shuffled corpus lines, recombined labels, or labels that echo earlier ones.
    pub fn utterance(&self, rng: &mut Rng, n: usize) -> Vec<String> {
        match rng.below(5) {
            4 => self.echoing(rng, n),
            3 if !self.extras.is_empty() => {
                // a run of the repository's sample sentences (short utterances, different utterance-level contexts)
                let start = rng.below(self.extras.len());
                (0..n).map(|i| self.extras[(start + i) % self.extras.len()].clone()).collect()
            }
            0 | 3 => {
                let start = rng.below(self.lines.len().saturating_sub(n).max(1));
                self.lines[start..(start + n).min(self.lines.len())].to_vec()
            }
            1 => (0..n).map(|_| self.lines[rng.below(self.lines.len())].clone()).collect(),
            _ => (0..n).map(|_| self.recombined(rng)).collect(),
        }
    }
}

/// Draw a condition inside the operating envelope of C01 and apply it; returns its description.
/// `wild` enables fperiod / rate overrides and envelope corners.
/// The engine's OBSERVABLE settings: every getter of the condition (bit patterns of the floats), incl. the interpolation weights.
/// (Not the `Debug` text: a lazily filled private cache may legitimately change during a call - found by the false-alarm survey, DESIGN 10.7.)
pub fn settings_snapshot(engine: &Engine) -> String {
    let c = &engine.condition;
    let ns = engine.voices.global_metadata().num_streams;
    let bits = |x: f64| format!("{:016x}", x.to_bits());
    let mut s = format!("rate={} fperiod={} alpha={} beta={} vol={} speed={} ht={} align={}", c.get_sampling_frequency(), c.get_fperiod(),
                        bits(c.get_alpha()), bits(c.get_beta()), bits(c.get_volume()), bits(c.get_speed()), bits(c.get_additional_half_tone()),
                        c.get_phoneme_alignment_flag());
    let iw = c.get_interporation_weight();
    let ws = |w: &[f64]| w.iter().map(|x| bits(*x)).collect::<Vec<_>>().join(",");
    s.push_str(&format!(" iwd=[{}]", ws(iw.get_duration())));
    for i in 0..ns {
        s.push_str(&format!(" thr{}={} gvw{}={} iwp{}=[{}] iwg{}=[{}]", i, bits(c.get_msd_threshold(i)), i, bits(c.get_gv_weight(i)), i,
                            ws(iw.get_parameter(i)), i, ws(iw.get_gv(i))));
    }
    s
}

pub fn random_condition(engine: &mut Engine, rng: &mut Rng, wild: bool) -> Value {
    let nstream = engine.voices.global_metadata().num_streams;
    let c = &mut engine.condition;
    let corner = |rng: &mut Rng, lo: f64, hi: f64| -> f64 {
        match rng.below(6) {
            0 => lo,
            1 => hi,
            _ => rng.uniform(lo, hi),
        }
    };
    let mut d = serde_json::Map::new();
    if rng.chance(0.6) {
        let s = corner(rng, 0.25, 4.0);
        c.set_speed(s);
        d.insert("speed".into(), json!(s));
    }
    if rng.chance(0.4) {
        let a = corner(rng, 0.0, 0.8);
        c.set_alpha(a);
        d.insert("alpha".into(), json!(a));
    }
    if rng.chance(0.4) {
        let b = corner(rng, 0.0, 0.8);
        c.set_beta(b);
        d.insert("beta".into(), json!(b));
    }
    for s in 0..nstream {
        if rng.chance(0.4) {
            let w = corner(rng, 0.0, 2.0);
            c.set_gv_weight(s, w);
            d.insert(format!("gvw{}", s), json!(w));
        }
        if rng.chance(0.4) {
            let t = corner(rng, 0.0, 1.0);
            c.set_msd_threshold(s, t);
            d.insert(format!("thr{}", s), json!(t));
        }
    }
    if rng.chance(0.4) {
        let h = corner(rng, -24.0, 24.0);
        c.set_additional_half_tone(h);
        d.insert("halftone".into(), json!(h));
    }
    if rng.chance(0.4) {
        let v = corner(rng, -20.0, 20.0);
        c.set_volume(v);
        d.insert("volume".into(), json!(v));
    }
    if wild && rng.chance(0.3) {
        let f = *rng.pick(&[1usize, 2, 3, 40, 80, 240, 480]);
        c.set_fperiod(f);
        d.insert("fperiod".into(), json!(f));
    }
    if wild && rng.chance(0.3) {
        let r = *rng.pick(&[8000usize, 16000, 22050, 44100, 48000, 96000]);
        c.set_sampling_frequency(r);
        d.insert("rate".into(), json!(r));
    }
    Value::Object(d)
}

pub fn load_bundled() -> Engine {
    // JBV_VOICE: a recorder can be pointed at another voice of the same layout (a PDF-perturbed copy of the bundled one,
    // whose low-pass and spectral parameters differ from state to state)
    if let Ok(v) = std::env::var("JBV_VOICE") {
        return Engine::load(&[v.as_str()]).unwrap_or_else(|e| die(&format!("{} does not load: {}", v, e)));
    }
    Engine::load(&[BUNDLED_VOICE]).unwrap_or_else(|e| die(&format!("bundled voice does not load: {}", e)))
}
