//! C04: a loaded voice is exactly what the file says.
//!  replay: rendered voices (Gen_Voice) -> real loader; every selection, word, metadata field compared.
//!  record: bundled voice selections for random corpus labels -> trace for Trace_Voice.
use crate::eng::*;
use crate::util::*;
use crate::voicegen;
use jbonsai::model::voice::model::Model;
use jbonsai::model::{load_htsvoice_file, Voice};
use jbonsai::Engine;
use jlabel::Label;
use serde_json::{json, Value};

pub fn parse_labels(path: &str) -> Vec<Label> {
    let v: Value = serde_json::from_str(&std::fs::read_to_string(path).unwrap_or_else(|e| die(&format!("{}: {}", path, e)))).unwrap();
    va(&v).iter().map(|s| vs(s).parse::<Label>().unwrap_or_else(|_| die("label table entry does not parse"))).collect()
}

fn words_match(m: &Model, state: usize, label: &Label, words: &Value, has_msd: bool) -> Result<(), String> {
    let p = m.get_parameter(state, label);
    let w: Vec<f64> = va(words).iter().map(dy).collect();
    let n = p.parameters.len();
    if w.len() != 2 * n + has_msd as usize {
        return Err(format!("parameter count {} does not match {} words", n, w.len()));
    }
    for i in 0..n {
        if p.parameters[i].0.to_bits() != ((w[i] as f32) as f64).to_bits() {
            return Err(format!("mean[{}] = {} expected {}", i, p.parameters[i].0, w[i]));
        }
        if p.parameters[i].1.to_bits() != ((w[n + i] as f32) as f64).to_bits() {
            return Err(format!("variance[{}] = {} expected {}", i, p.parameters[i].1, w[n + i]));
        }
    }
    match (p.msd, has_msd) {
        (Some(x), true) if x.to_bits() == ((w[2 * n] as f32) as f64).to_bits() => Ok(()),
        (None, false) => Ok(()),
        (got, _) => Err(format!("voicing weight {:?} expected {}", got, if has_msd { w[2 * n].to_string() } else { "none".into() })),
    }
}

fn check_model(tag: &str, m: &Model, says: &Value, states: &[usize], labels: &[Label], has_msd: bool) -> Result<usize, (String, String)> {
    let mut n = 0;
    for (si, st) in states.iter().enumerate() {
        for (l, label) in labels.iter().enumerate() {
            let exp = &says["sel"][si][l];
            let (et, ep) = (vu(&exp[0]), vu(&exp[1]));
            let got = m.get_index(*st, label);
            if got != (Some(et), Some(ep)) {
                return Err((format!("{}:index", tag), format!("{} state {} label #{}: get_index = {:?}, file says tree {} pdf {}", tag, st, l + 1, got, et, ep)));
            }
            let words = &says["pdfs"][et - 2][ep - 1];
            if let Err(e) = words_match(m, *st, label, words, has_msd) {
                return Err((format!("{}:words", tag), format!("{} state {} label #{}: {}", tag, st, l + 1, e)));
            }
            n += 1;
        }
    }
    Ok(n)
}

/// What synthesis is handed for a whole utterance (`Models` over the label table taken as one utterance): per label and state
/// the duration Gaussian and every stream Gaussian are the words of the PDF the file's trees select for that label and state.
pub fn check_models(engine: &Engine, says: &Value, labels: &[Label]) -> Result<(), (String, String)> {
    let m = jbonsai::model::Models::new(labels, &engine.voices, engine.condition.get_interporation_weight());
    let nstate = vu(&says["nstate"]);
    let f = |x: f64| ((x as f32) as f64).to_bits();
    let dur = m.duration();
    if dur.len() != labels.len() * nstate {
        return Err(("models:dur:len".into(), format!("{} duration entries for {} labels x {} states", dur.len(), labels.len(), nstate)));
    }
    for l in 0..labels.len() {
        let sel = &says["dur"]["sel"][0][l];
        let w: Vec<f64> = va(&says["dur"]["pdfs"][vu(&sel[0]) - 2][vu(&sel[1]) - 1]).iter().map(dy).collect();
        for st in 0..nstate {
            let d = dur[l * nstate + st];
            if d.0.to_bits() != f(w[st]) || d.1.to_bits() != f(w[nstate + st]) {
                return Err(("models:dur".into(), format!("Models::duration label #{} state {}: ({}, {}) but the file's tree selects ({}, {})", l + 1, st + 2, d.0, d.1, w[st], w[nstate + st])));
            }
        }
    }
    for (s, ss) in va(&says["streams"]).iter().enumerate() {
        let ms = m.model_stream(s);
        let has_msd = vb(&ss["msd"]);
        let got: Vec<(Vec<(f64, f64)>, f64)> = ms.stream.iter().map(|(p, w)| (p.iter().map(|mv| (mv.0, mv.1)).collect(), *w)).collect();
        if got.len() != labels.len() * nstate {
            return Err((format!("models:stream{}:len", s), format!("{} entries for {} labels x {} states", got.len(), labels.len(), nstate)));
        }
        for l in 0..labels.len() {
            for st in 0..nstate {
                let sel = &ss["model"]["sel"][st][l];
                let w: Vec<f64> = va(&ss["model"]["pdfs"][vu(&sel[0]) - 2][vu(&sel[1]) - 1]).iter().map(dy).collect();
                let (p, msd) = &got[l * nstate + st];
                let n = p.len();
                let ok = w.len() == 2 * n + has_msd as usize
                    && (0..n).all(|i| p[i].0.to_bits() == f(w[i]) && p[i].1.to_bits() == f(w[n + i]))
                    && (!has_msd || msd.to_bits() == f(w[2 * n]));
                if !ok {
                    return Err((format!("models:stream{}", s), format!("Models::model_stream({}) label #{} state {}: {:?} msd {} but the file's tree selects words {:?}", s, l + 1, st + 2, p, msd, w)));
                }
            }
        }
    }
    Ok(())
}

/// What the engine hands to parameter generation under its default condition are the file's Gaussians, untouched: the trajectories the
/// engine builds (hook H1) are bit-equal to those the public MlpgAdjust gives on Models::model_stream(s) - whose entries check_models
/// has compared with the file word by word - with the public DurationEstimator's frame counts.
pub fn check_handoff(engine: &Engine, labels: &[Label]) -> Result<(), (String, String)> {
    use jbonsai::duration::DurationEstimator;
    use jbonsai::mlpg_adjust::MlpgAdjust;
    use jbonsai::model::Models;
    // (voices whose second stream is not a scalar log F0 load, but are not synthesis voices: the generator refuses them)
    if engine.voices.global_metadata().num_streams < 2 || engine.voices.stream_metadata(1).vector_length != 1 {
        return Ok(());
    }
    let g = engine.generator(labels.to_vec()).map_err(|e| ("handoff:error".to_string(), format!("Engine::generator failed: {}", e)))?;
    let (a, b, c) = g.verif_trajectories();
    let m = Models::new(labels, &engine.voices, engine.condition.get_interporation_weight());
    let dur = DurationEstimator::new(m.duration(), m.nstate()).create(engine.condition.get_speed());
    let ns = engine.voices.global_metadata().num_streams;
    for (s, got) in [a, b, c].iter().enumerate().take(ns) {
        let direct = MlpgAdjust::new(engine.condition.get_gv_weight(s), engine.condition.get_msd_threshold(s), m.model_stream(s)).create(&dur);
        let same = direct.len() == got.len()
            && direct.iter().zip(got.iter()).all(|(x, y)| x.len() == y.len() && x.iter().zip(y).all(|(p, q)| p.to_bits() == q.to_bits()));
        if !same {
            let at = direct.iter().zip(got.iter()).position(|(x, y)| x.len() != y.len() || x.iter().zip(y).any(|(p, q)| p.to_bits() != q.to_bits()));
            return Err((format!("handoff:stream{}", s),
                        format!("default condition: the engine's trajectory of stream {} differs from parameter generation on the file's Gaussians (first differing frame {:?} of {} / {})",
                                s, at, got.len(), direct.len())));
        }
    }
    Ok(())
}

/// Compare a loaded voice with what the specification says the file contains.
pub fn check_voice(voice: &Voice, says: &Value, labels: &[Label]) -> Result<usize, (String, String)> {
    let md = &voice.metadata;
    let e = |k: &str, m: String| Err((format!("meta:{}", k), m));
    if md.sampling_frequency != vu(&says["rate"]) {
        return e("rate", format!("sampling_frequency {} expected {}", md.sampling_frequency, says["rate"]));
    }
    if md.frame_period != vu(&says["fperiod"]) {
        return e("fperiod", format!("frame_period {} expected {}", md.frame_period, says["fperiod"]));
    }
    if md.num_states != vu(&says["nstate"]) {
        return e("nstate", format!("num_states {} expected {}", md.num_states, says["nstate"]));
    }
    if md.num_streams != vu(&says["nstream"]) || voice.stream_models.len() != vu(&says["nstream"]) {
        return e("nstream", format!("num_streams {} / {} models expected {}", md.num_streams, voice.stream_models.len(), says["nstream"]));
    }
    for (l, label) in labels.iter().enumerate() {
        if md.gv_off_context.test(label) != vb(&says["gvoff"][l]) {
            return e("gvoff", format!("gv_off_context.test(label #{}) = {}", l + 1, md.gv_off_context.test(label)));
        }
    }
    let nstate = md.num_states;
    let mut n = check_model("dur", &voice.duration_model, &says["dur"], &[2], labels, false)?;
    for (s, ss) in va(&says["streams"]).iter().enumerate() {
        let sm = &voice.stream_models[s];
        let name = vs(&ss["name"]);
        if md.stream_type[s] != name {
            return e("stream_type", format!("stream_type[{}] = {} expected {}", s, md.stream_type[s], name));
        }
        let m = &sm.metadata;
        if m.vector_length != vu(&ss["vlen"]) || m.num_windows != vu(&ss["nwin"]) || m.is_msd != vb(&ss["msd"]) || m.use_gv != vb(&ss["usegv"]) {
            return e("stream", format!("{}: metadata {:?} expected vlen {} nwin {} msd {} usegv {}", name, m, ss["vlen"], ss["nwin"], ss["msd"], ss["usegv"]));
        }
        let opts: Vec<String> = va(&ss["opts"]).iter().map(|o| vs(o).to_string()).collect();
        if m.option != opts {
            return e("option", format!("{}: option {:?} expected {:?}", name, m.option, opts));
        }
        // window coefficients
        let wins: Vec<_> = sm.windows.iter().collect();
        if wins.len() != va(&ss["wins"]).len() {
            return e("windows", format!("{}: {} windows expected {}", name, wins.len(), va(&ss["wins"]).len()));
        }
        for (wi, w) in wins.iter().enumerate() {
            let exp: Vec<f64> = va(&ss["wins"][wi]).iter().map(dy).collect();
            let mut got = vec![f64::NAN; w.width()];
            for (idx, c) in w.iter_rev(0) {
                got[idx.index()] = c;
            }
            if got.len() != exp.len() || got.iter().zip(&exp).any(|(a, b)| a != b) {
                return e("windows", format!("{}: window {} coefficients {:?} expected {:?}", name, wi, got, exp));
            }
        }
        let states: Vec<usize> = (2..2 + nstate).collect();
        n += check_model(&format!("stream{}", s), &sm.stream_model, &ss["model"], &states, labels, vb(&ss["msd"]))?;
        match (&sm.gv_model, vb(&ss["usegv"])) {
            (Some(g), true) => n += check_model(&format!("gv{}", s), g, &ss["gv"], &[2], labels, false)?,
            (None, false) => {}
            _ => return e("gv", format!("{}: gv model presence differs from USE_GV", name)),
        }
    }
    Ok(n)
}

/// Engine defaults equal the header (rate, fperiod, alpha, stage, log-gain) and the fixed defaults.
pub fn check_engine_defaults(engine: &Engine, says: &Value) -> Result<(), (String, String)> {
    let c = &engine.condition;
    let e = |k: &str, m: String| Err((format!("default:{}", k), m));
    if c.get_sampling_frequency() != vu(&says["rate"]) {
        return e("rate", format!("engine rate {} expected {}", c.get_sampling_frequency(), says["rate"]));
    }
    if c.get_fperiod() != vu(&says["fperiod"]) {
        return e("fperiod", format!("engine fperiod {} expected {}", c.get_fperiod(), says["fperiod"]));
    }
    let mut alpha = 0.0;
    let mut stage = 0usize;
    let mut lg = false;
    for o in va(&says["streams"][0]["opts"]) {
        if let Some((k, v)) = vs(o).split_once('=') {
            match k {
                "ALPHA" => alpha = v.parse().unwrap(),
                "GAMMA" => stage = v.parse().unwrap(),
                "LN_GAIN" => lg = v == "1",
                _ => {}
            }
        }
    }
    if c.get_alpha() != alpha {
        return e("alpha", format!("engine alpha {} expected {}", c.get_alpha(), alpha));
    }
    let dbg = format!("{:?}", c);
    // (stage and log-gain flag have no getter: they are read from the Debug text, and only judged if that text names them)
    if dbg.contains("stage: ") && !dbg.contains(&format!("stage: {},", stage)) {
        return e("stage", format!("engine stage differs from GAMMA={} ({})", stage, &dbg[..dbg.len().min(300)]));
    }
    if dbg.contains("use_log_gain: ") && !dbg.contains(&format!("use_log_gain: {},", lg)) {
        return e("log_gain", format!("engine log-gain flag differs from LN_GAIN={}", lg));
    }
    let ns = vu(&says["nstream"]);
    let ok = c.get_volume().abs() < 1e-12
        && c.get_speed() == 1.0
        && c.get_beta() == 0.0
        && c.get_additional_half_tone() == 0.0
        && !c.get_phoneme_alignment_flag()
        && (0..ns).all(|s| c.get_msd_threshold(s) == 0.5 && c.get_gv_weight(s) == 1.0);
    if !ok {
        return e("fixed", format!("fixed defaults differ: {}", &dbg[..dbg.len().min(400)]));
    }
    Ok(())
}

pub fn replay(cases_path: &str, out_path: &str, labels_path: &str) {
    let cases = read_jsonl(cases_path);
    let labels = parse_labels(labels_path);
    let results = par_map(&cases, |i, case| {
        let bytes = voicegen::render(&case["voice"]);
        let path = voicegen::scratch(&bytes, &format!("c04_{}", i));
        let r = guarded(|| -> Result<usize, (String, String)> {
            let voice = load_htsvoice_file(&path).map_err(|e| ("load:error".to_string(), format!("well-formed rendered voice rejected: {}", e)))?;
            let n = check_voice(&voice, &case["says"], &labels)?;
            // growth beyond C04: a Voice survives its own serde round trip (derive + the custom RegexWrap impl) unchanged,
            // and the round-tripped value still is what the file says
            let js = serde_json::to_string(&voice).map_err(|e| ("serde:serialize".to_string(), e.to_string()))?;
            let back: Voice = serde_json::from_str(&js).map_err(|e| ("serde:deserialize".to_string(), e.to_string()))?;
            if back != voice {
                return Err(("serde:roundtrip".into(), "Voice != deserialize(serialize(Voice))".into()));
            }
            check_voice(&back, &case["says"], &labels).map_err(|(k, m)| (format!("serde:{}", k), m))?;
            let engine = Engine::load(&[&path]).map_err(|e| ("engine:error".to_string(), format!("Engine::load failed: {}", e)))?;
            check_engine_defaults(&engine, &case["says"])?;
            // the voice the engine holds (what synthesis will use) is what the file says, too
            check_voice(&engine.voices[0], &case["says"], &labels).map_err(|(k, m)| (format!("engine:{}", k), m))?;
            check_models(&engine, &case["says"], &labels)?;
            check_handoff(&engine, &labels)?;
            Ok(n)
        });
        std::fs::remove_file(&path).ok();
        match r {
            Ok(Ok(n)) => (n, None),
            Ok(Err((k, m))) => (0, Some((k, m))),
            Err(p) => (0, Some((format!("panic:{}", p), p))),
        }
    });
    // hot reload: different files written, one after the other, to ONE path and loaded while the engine of the previous file
    // is still alive - every load must yield what the file says now
    let stride = (cases.len() / 400).max(1);
    let mut reload_bad: Vec<(usize, String, String)> = Vec::new();
    {
        let mut prev: Option<Engine> = None;
        for (i, case) in cases.iter().enumerate().filter(|(i, _)| i % stride == 0) {
            let bytes = voicegen::render(&case["voice"]);
            // every other time the path first holds a variant of the SAME LENGTH (first digit of the sampling frequency changed, lowest
            // mantissa bit of the first duration mean flipped), which is loaded and then replaced by the real file: size alone says nothing
            if (i / stride) % 2 == 1 {
                let mut variant = bytes.clone();
                let key = b"SAMPLING_FREQUENCY:";
                if let Some(at) = variant.windows(key.len()).position(|w| w == key) {
                    let d = &mut variant[at + key.len()];
                    *d = if *d == b'9' { b'8' } else { b'9' };
                }
                let tag = b"[DATA]\n";
                if let Some(at) = variant.windows(tag.len()).position(|w| w == tag) {
                    if at + tag.len() + 4 < variant.len() {
                        variant[at + tag.len() + 4] ^= 1;
                    }
                }
                let vpath = voicegen::scratch(&variant, "c04_reload");
                let _ = guarded(|| Engine::load(&[&vpath]).map(|e| e.condition.get_sampling_frequency()).ok());
            }
            let path = voicegen::scratch(&bytes, "c04_reload");
            let r = guarded(|| -> Result<Engine, (String, String)> {
                let engine = Engine::load(&[&path]).map_err(|e| ("reload:error".to_string(), format!("Engine::load failed on a rewritten path: {}", e)))?;
                check_engine_defaults(&engine, &case["says"]).map_err(|(k, m)| (format!("reload:{}", k), m))?;
                check_voice(&engine.voices[0], &case["says"], &labels).map_err(|(k, m)| (format!("reload:{}", k), m))?;
                Ok(engine)
            });
            match r {
                Ok(Ok(e)) => prev = Some(e),
                Ok(Err((k, m))) => reload_bad.push((i, k, format!("file rewritten at the same path while the previous engine is alive: {}", m))),
                Err(p) => reload_bad.push((i, format!("panic:{}", p), p)),
            }
            std::fs::remove_file(&path).ok();
        }
        drop(prev);
    }
    let mut out = Out::create(out_path);
    let mut failed = 0;
    let mut sel = 0;
    for (i, k, m) in reload_bad {
        failed += 1;
        out.line(&json!({"case": i, "key": k, "msg": m, "fam": cases[i]["fam"]}));
    }
    for (i, (n, bad)) in results.into_iter().enumerate() {
        sel += n;
        if let Some((key, msg)) = bad {
            failed += 1;
            out.line(&json!({"case": i, "key": key, "msg": msg, "fam": cases[i]["fam"], "header": cases[i]["voice"]["header"]}));
        }
    }
    out.line(&json!({"summary": {"cases": cases.len(), "failed": failed, "selections": sel, "runs": sel}}));
    out.finish();
}

fn f32bits(x: f64) -> i32 {
    (x as f32).to_bits() as i32
}

/// Selections of the bundled voice on random (recombined) corpus labels, as a trace.
pub fn record(seed: u64, n: usize, out_path: &str) {
    let corpus = Corpus::load();
    // JBV_VOICE: another real-layout voice (a header-edited copy of the bundled one) described by its own tokenizer tables
    let vpath = std::env::var("JBV_VOICE").unwrap_or_else(|_| BUNDLED_VOICE.to_string());
    let voice = load_htsvoice_file(&vpath).unwrap_or_else(|e| die(&format!("voice {}: {}", vpath, e)));
    let engine = load_bundled();
    let mut rng = Rng::new(seed);
    let mut out = Out::create(out_path);
    // what the engine's own copy of the voice says about GV use (the flags synthesis will act on)
    for s in 0..engine.voices.global_metadata().num_streams {
        let name = &voice.metadata.stream_type[s];
        out.line(&json!({"ev": "smeta", "key": format!("USE_GV[{}]", name), "value": (engine.voices.stream_metadata(s).use_gv as u8).to_string()}));
        out.line(&json!({"ev": "smeta", "key": format!("USE_GV[{}]", name), "value": (engine.voices[0].stream_models[s].gv_model.is_some() as u8).to_string()}));
    }
    let md = &voice.metadata;
    out.line(&json!({"ev": "meta", "key": "SAMPLING_FREQUENCY", "value": md.sampling_frequency.to_string()}));
    out.line(&json!({"ev": "meta", "key": "FRAME_PERIOD", "value": md.frame_period.to_string()}));
    out.line(&json!({"ev": "meta", "key": "NUM_STATES", "value": md.num_states.to_string()}));
    out.line(&json!({"ev": "meta", "key": "NUM_STREAMS", "value": md.num_streams.to_string()}));
    out.line(&json!({"ev": "meta", "key": "STREAM_TYPE", "value": md.stream_type.join(",")}));
    // engine defaults against the same header keys
    out.line(&json!({"ev": "meta", "key": "SAMPLING_FREQUENCY", "value": engine.condition.get_sampling_frequency().to_string()}));
    out.line(&json!({"ev": "meta", "key": "FRAME_PERIOD", "value": engine.condition.get_fperiod().to_string()}));
    out.line(&json!({"ev": "smeta", "key": "OPTION[MCP]", "value": format!("ALPHA={}", engine.condition.get_alpha())}));
    for (s, sm) in voice.stream_models.iter().enumerate() {
        let name = &md.stream_type[s];
        let m = &sm.metadata;
        out.line(&json!({"ev": "smeta", "key": format!("VECTOR_LENGTH[{}]", name), "value": m.vector_length.to_string()}));
        out.line(&json!({"ev": "smeta", "key": format!("NUM_WINDOWS[{}]", name), "value": m.num_windows.to_string()}));
        out.line(&json!({"ev": "smeta", "key": format!("IS_MSD[{}]", name), "value": (m.is_msd as u8).to_string()}));
        out.line(&json!({"ev": "smeta", "key": format!("USE_GV[{}]", name), "value": (m.use_gv as u8).to_string()}));
        out.line(&json!({"ev": "smeta", "key": format!("OPTION[{}]", name), "value": m.option.join(",")}));
        for (wi, w) in sm.windows.iter().enumerate() {
            let mut c = vec![0.0; w.width()];
            for (idx, x) in w.iter_rev(0) {
                c[idx.index()] = x;
            }
            let mut toks = vec![w.width().to_string()];
            toks.extend(c.iter().map(|x| format!("{:?}", x)));
            out.line(&json!({"ev": "win", "stream": name, "index": wi + 1, "toks": toks}));
        }
    }
    // hand-off: under the default condition the engine generates its trajectories from exactly these Gaussians
    for _ in 0..(2 + n / 100) {
        let nl = 2 + rng.below(6);
        let labels: Vec<Label> = corpus.utterance(&mut rng, nl).iter().filter_map(|l| l.parse().ok()).collect();
        match guarded(|| check_handoff(&engine, &labels)) {
            Ok(Ok(())) => out.line(&json!({"ev": "handoff", "equal": true, "labels": labels.len()})),
            Ok(Err((k, m))) => out.line(&json!({"ev": "handoff", "equal": false, "key": k, "msg": m})),
            Err(p) => out.line(&json!({"ev": "handoff", "equal": false, "key": "panic", "msg": p})),
        }
    }
    let nstate = md.num_states;
    for _ in 0..n {
        let line = if rng.chance(0.5) { corpus.recombined(&mut rng) } else { corpus.lines[rng.below(corpus.lines.len())].clone() };
        let label: Label = match line.parse() {
            Ok(l) => l,
            Err(_) => continue,
        };
        // one random model / state per label
        let nmodels = 1 + 2 * voice.stream_models.len();
        let k = rng.below(nmodels);
        let (key, model, state): (String, &Model, usize) = if k == 0 {
            ("dur".into(), &voice.duration_model, 2)
        } else if k <= voice.stream_models.len() {
            (format!("stream:{}", md.stream_type[k - 1]), &voice.stream_models[k - 1].stream_model, 2 + rng.below(nstate))
        } else {
            let s = k - 1 - voice.stream_models.len();
            match &voice.stream_models[s].gv_model {
                Some(g) => (format!("gv:{}", md.stream_type[s]), g, 2),
                None => continue,
            }
        };
        let r = guarded(|| {
            let (t, p) = model.get_index(state, &label);
            let par = model.get_parameter(state, &label);
            let mut words: Vec<i32> = par.parameters.iter().map(|mv| f32bits(mv.0)).collect();
            words.extend(par.parameters.iter().map(|mv| f32bits(mv.1)));
            if let Some(m) = par.msd {
                words.push(f32bits(m));
            }
            (t, p, words)
        });
        match r {
            Ok((t, p, words)) => out.line(&json!({"ev": "sel", "model": key, "state": state, "label": line,
                "tree": t.map(|x| x as i64).unwrap_or(-1), "pdf": p.map(|x| x as i64).unwrap_or(-1), "words": words})),
            Err(m) => out.line(&json!({"ev": "panic", "in": "select", "msg": m, "label": line})),
        }
    }
    // what synthesis is handed for a whole utterance (Models) is, label by label, what the file's trees select for that
    // label alone - whatever the other labels of the utterance are (repeated lines, repeated phoneme contexts)
    let weights = engine.condition.get_interporation_weight();
    for _ in 0..(n / 25).max(4) {
        let nl = 2 + rng.below(8);
        let lines = if rng.chance(0.6) { corpus.echoing(&mut rng, nl) } else { corpus.utterance(&mut rng, nl) };
        let labels: Vec<Label> = match lines.iter().map(|l| l.parse()).collect::<Result<Vec<_>, _>>() {
            Ok(l) => l,
            Err(_) => continue,
        };
        let r = guarded(|| {
            let m = jbonsai::model::Models::new(&labels, &engine.voices, weights);
            let dur = m.duration();
            let s = rng.below(voice.stream_models.len());
            let ms = m.model_stream(s);
            let stream: Vec<(Vec<(f64, f64)>, f64)> = ms.stream.iter().map(|(p, w)| (p.iter().map(|mv| (mv.0, mv.1)).collect(), *w)).collect();
            (dur.iter().map(|mv| (mv.0, mv.1)).collect::<Vec<_>>(), s, stream)
        });
        match r {
            Ok((dur, s, stream)) => {
                if dur.len() != labels.len() * nstate || stream.len() != labels.len() * nstate {
                    out.line(&json!({"ev": "panic", "in": "Models", "msg": format!("{} duration entries, {} stream entries for {} labels x {} states", dur.len(), stream.len(), labels.len(), nstate)}));
                    continue;
                }
                for (i, line) in lines.iter().enumerate() {
                    let st = rng.below(nstate);
                    let d = dur[i * nstate + st];
                    out.line(&json!({"ev": "usel", "model": "dur", "state": 2 + st, "label": line, "pos": i, "words": [f32bits(d.0), f32bits(d.1)]}));
                    let (p, w) = &stream[i * nstate + st];
                    let mut words: Vec<i32> = p.iter().map(|mv| f32bits(mv.0)).collect();
                    words.extend(p.iter().map(|mv| f32bits(mv.1)));
                    if voice.stream_models[s].metadata.is_msd {
                        words.push(f32bits(*w));
                    }
                    out.line(&json!({"ev": "usel", "model": format!("stream:{}", md.stream_type[s]), "state": 2 + st, "label": line, "pos": i, "words": words}));
                }
            }
            Err(m) => out.line(&json!({"ev": "panic", "in": "Models", "msg": m, "lines": lines})),
        }
    }
    out.finish();
}


/// A real voice whose duration tree was replaced by a chain of n question nodes (bin/htsvoice.py chain_voice): the PDF index
/// selected for each label of the table must be what the specification says (1 if the question holds, n + 1 otherwise), and
/// the first mean handed to synthesis must be that index (PDF k was written with first mean k).
pub fn chain(voice_path: &str, labels_path: &str, expect_path: &str, out_path: &str) {
    let labels = parse_labels(labels_path);
    let expect: Value = serde_json::from_str(&std::fs::read_to_string(expect_path).unwrap_or_else(|e| die(&e.to_string()))).unwrap();
    let mut out = Out::create(out_path);
    let r = guarded(|| -> Result<(), (String, String)> {
        let engine = Engine::load(&[voice_path]).map_err(|e| ("chain:load".to_string(), format!("a voice with a {}-node duration tree was rejected: {}", expect["n"], e)))?;
        let voice = &engine.voices[0];
        let m = jbonsai::model::Models::new(&labels, &engine.voices, engine.condition.get_interporation_weight());
        let dur = m.duration();
        let nstate = voice.metadata.num_states;
        for (l, label) in labels.iter().enumerate() {
            let want = vu(&expect["expect"][l]);
            let got = voice.duration_model.get_index(2, label);
            if got != (Some(2), Some(want)) {
                return Err(("chain:index".into(), format!("label #{}: get_index = {:?}, the chain of {} nodes selects pdf {}", l + 1, got, expect["n"], want)));
            }
            let p = voice.duration_model.get_parameter(2, label);
            if p.parameters[0].0 != want as f64 || dur[l * nstate].0 != want as f64 {
                return Err(("chain:words".into(), format!("label #{}: first duration mean {} / {} but PDF {} holds {}", l + 1, p.parameters[0].0, dur[l * nstate].0, want, want)));
            }
        }
        Ok(())
    });
    match r {
        Ok(Ok(())) => {}
        Ok(Err((k, m))) => out.line(&json!({"case": 0, "key": k, "msg": m})),
        Err(p) => out.line(&json!({"case": 0, "key": format!("chain:panic:{}", p), "msg": p})),
    }
    out.line(&json!({"summary": {"cases": 1, "labels": labels.len()}}));
    out.finish();
}
