---- MODULE Gen_Spectral ----
(* Inputs for the vocoder-level spectral checks (C06, C13, C14): TLC enumerates filter orders, warping
   constants, rates and pseudo-random coefficient vectors; the harness measures pulse responses through the
   public Vocoder and logs them; Trace_Spectral evaluates the laws. *)
EXTENDS SpectralGrid, FiniteSets, TLC, Json
CONSTANTS Mode, Orders, Salts, Alphas, Rates, Betas, Stages
VARIABLES c
vars == <<c>>
Mix(a, b, d) == (a * 7 + b * 13 + d * 5 + a * b * 3)
\* raw values in -8..8, scaled so that sum_{m>=1} |c_m| <= budget (1/64 units)
Raw(order, salt) == [m \in 1..order |-> IF salt % 2 = 0 THEN (Mix(m, salt, order) % 17) - 8
                                        ELSE (IF Mix(m, salt, order) % 3 = 0 THEN -1 ELSE 1) * (24 \div m)]   \* speech-like: dominant low orders
Budget(salt) == CASE salt % 3 = 0 -> 128 [] salt % 3 = 1 -> 64 [] OTHER -> 24
Cep(order, salt, budget) ==
  LET r == Raw(order, salt)
      tot == SumAbsFrom(r, 2)
  IN [m \in 1..order |-> IF m = 1 THEN ((Mix(salt, order, 1) % 9) - 4) * 16            \* c_0 in -1..1
                         ELSE IF m = 2 /\ salt % 4 = 3 THEN 0                                    \* a cepstrum whose first-order term is exactly zero
                         ELSE IF tot = 0 THEN 0 ELSE (IF r[m] < 0 THEN -1 ELSE 1) * ((Abs(r[m]) * budget) \div tot)]
\* "tilt" cepstra (salts 4, 5; postfilter cases): nearly the whole budget on the first order (+ for salt 4, - for salt 5), a small second
\* order of negative sign, a small third one.  Sharpening orders >= 2 LOWERS the energy of such a response (the spectral peak sits where
\* cos(2 theta) = 1 and c_2 < 0), so the order-0 compensation has to raise the gain - the opposite of the usual case.
CepTilt(order, salt, budget) ==
  [m \in 1..order |-> IF m = 1 THEN ((Mix(salt, order, 1) % 9) - 4) * 16
                       ELSE IF m = 2 THEN (IF salt % 2 = 0 THEN 1 ELSE -1) * (budget - 20)
                       ELSE IF m = 3 THEN -12
                       ELSE IF m = 4 THEN 8 ELSE 0]
SumSq(s) == LET RECURSIVE F(_) F(t) == IF t = {} THEN 0 ELSE LET x == CHOOSE y \in t : TRUE IN x * x + x + F(t \ {x}) IN F(s)
DecSeq(s) == LET RECURSIVE F(_) F(t) == IF t = {} THEN <<>> ELSE LET x == CHOOSE y \in t : \A z \in t : y >= z IN <<x>> \o F(t \ {x}) IN F(s)
LspGrid == {-8, -6, -4, -2, 0, 2, 4, 6, 8}
\* acos(k/8) in milliradians for k = -7..7 (constants; used only to keep the generated frequency sets inside the property's
\* spacing precondition  w_{i+1} - w_i >= pi / (4 (order + 1)),  below which the vocoder itself moves the frequencies)
AcosMilli == << 2636, 2419, 2246, 2094, 1955, 1823, 1696, 1571, 1445, 1318, 1186, 1047, 896, 723, 505 >>
Ac(k) == AcosMilli[k + 8]
MinSpacing(m) == (785 \div (m + 1)) + 3
Spaced(ks) == \A i \in 1..(Len(ks) - 1) : Ac(ks[i + 1]) - Ac(ks[i]) >= MinSpacing(Len(ks))
Init == c = [kind |-> "none"]
Next == /\ c.kind = "none"
        /\ \/ /\ Mode = "mcep"
              /\ \E o \in Orders, s \in Salts, a \in Alphas, r \in Rates :
                   c' = [kind |-> "mcep", c64 |-> Cep(o, s, Budget(s)), alpha |-> a, rate |-> r, beta8 |-> 0]
           \/ /\ Mode = "post"
              /\ \E o \in Orders, s \in Salts, a \in Alphas, r \in Rates, b \in Betas :
                   c' = [kind |-> "post", c64 |-> IF s >= 4 THEN CepTilt(o, s, (128 * 8) \div (8 + b)) ELSE Cep(o, s, (Budget(s) * 8) \div (8 + b)),
                         alpha |-> a, rate |-> r, beta8 |-> b]
           \/ /\ Mode = "lsp"
              /\ \E m \in Orders, sa \in Salts, a \in Alphas, r \in Rates, st \in Stages :
                 \E s \in SUBSET (-7..7) :
                   /\ Cardinality(s) = m /\ (SumSq(s) + 3 * m) % 29 = sa /\ Spaced(DecSeq(s))
                   /\ LET ks == DecSeq(s) IN
                      c' = [kind |-> "lsp", ks |-> ks, stage |-> st, alpha |-> a, rate |-> r,
                            loggain |-> (SumSq(s) % 2 = 0), gain8 |-> IF SumSq(s) % 2 = 0 THEN (SumSq(s) % 5) - 2 ELSE 4 + (SumSq(s) % 9),
                            grid |-> LET pts == {X \in LspGrid : Fits(ks, X)} IN
                                     [i \in 1..Cardinality(pts) |-> LET X == CHOOSE x \in pts : Cardinality({y \in pts : y < x}) = i - 1
                                                                   IN <<X, NumA2(ks, X)>>]]
           \* C01 on the LSP path with the formant postfilter: frequency sets with one clustered interior pair (adjacent cosines k/8, about
           \* 0.125 rad apart) between neighbours at least five steps away.  The postfilter (beta > 0) pushes such a pair past each other
           \* and the vocoder's spacing repair has to undo that before the filter is built.  Every set is inside the stable range.
           \/ /\ Mode = "lspbeta"
              /\ \E m \in Orders, a \in Alphas, r \in Rates, st \in Stages, b \in Betas :
                 \E s \in SUBSET (-7..7) :
                   /\ Cardinality(s) = m
                   /\ LET ks == DecSeq(s) IN
                      /\ \E p \in 2..(m - 2) : ks[p] - ks[p + 1] = 1 /\ ks[p - 1] - ks[p] >= 5 /\ ks[p + 1] - ks[p + 2] >= 5
                      /\ StableH(ks, st)
                      /\ c' = [kind |-> "lspbeta", ks |-> ks, stage |-> st, alpha |-> a, rate |-> r, beta8 |-> b,
                               loggain |-> (SumSq(s) % 2 = 0), gain8 |-> IF SumSq(s) % 2 = 0 THEN (SumSq(s) % 5) - 2 ELSE 4 + (SumSq(s) % 9)]
Spec == Init /\ [][Next]_vars
Emit == c.kind # "none" => PrintT(<<"CASE", ToJson(c)>>)
\* preconditions of the laws hold for every generated cepstrum
Pre == (c.kind = "mcep" => SumAbsFrom(c.c64, 2) <= 128) /\ (c.kind = "post" => (SumAbsFrom(c.c64, 2) * (8 + c.beta8)) \div 8 <= 128)
====
