CONSTANTS WVals <- MCW  DVals <- MCD  NV = 2
SPECIFICATION Spec
INVARIANTS VertexLaw IdenticalLaw EffValid
PROPERTIES RejectKeepsOld AcceptStores
CHECK_DEADLOCK FALSE
