CONSTANTS Mode = "lsp"  Orders <- LspOrdersT  Salts = {0, 1, 2, 3, 4, 5}  Alphas <- AlphasT  Rates <- RatesT  Betas = {0}  Stages = {1, 2, 3, 4}
SPECIFICATION Spec
INVARIANTS Emit Pre
CHECK_DEADLOCK FALSE
