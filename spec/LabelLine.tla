------------------------------ MODULE LabelLine ------------------------------
(* How Engine::synthesize reads label text (C17, jbonsai::label::Labels::load_from_strings).

   A line is split at the first two spaces (splitn(3, ' ')):
     one token           -> empty: the line is skipped; otherwise it must be a full-context label
     two tokens          -> error (a label is missing after two times)
     three tokens        -> start time, end time (both must parse as f64, in 100 ns units) and a label (the rest)
   What "parses as f64" and "is a full-context label" mean is delegated by jbonsai to str::parse::<f64> and to
   jlabel; the specification takes both as oracles: IOEnv.ORACLE (JSON written by `jbv label-oracle`) gives, for
   every token of the tables below, whether the delegate accepts it.  With alignment off the times are ignored. *)
EXTENDS Integers, Sequences, TLC, Json, IOUtils, LabelData

TimeTokens == << "0", "14925000", "1.5", "-5", "NaN", "inf", "1e400", "+7", ".5", "abc", "0x10", "1_000", "1e", "--1" >>
LabelTokens == << LabelTable[1], LabelTable[7], LabelTable[3],
                  "garbage", "xx^xx-sil+b=o/A:xx+xx+xx", LabelTable[1] \o "zz", "/A:/B:/C:", LabelTable[7] \o "/L:1" >>
Oracle == JsonDeserialize(IOEnv.ORACLE)
TimeOK(i) == Oracle.time[i]
LabelOK(i) == Oracle.label[i]

\* line shapes; t1, t2 index TimeTokens, lab indexes LabelTokens
LineText(ln) ==
  CASE ln.shape = "E"    -> ""
    [] ln.shape = "L"    -> LabelTokens[ln.lab]
    [] ln.shape = "TTL"  -> TimeTokens[ln.t1] \o " " \o TimeTokens[ln.t2] \o " " \o LabelTokens[ln.lab]
    [] ln.shape = "TT"   -> TimeTokens[ln.t1] \o " " \o TimeTokens[ln.t2]
    [] ln.shape = "TL"   -> TimeTokens[ln.t1] \o " " \o LabelTokens[ln.lab]
    [] ln.shape = "TTLX" -> TimeTokens[ln.t1] \o " " \o TimeTokens[ln.t2] \o " " \o LabelTokens[ln.lab] \o " extra"
    [] ln.shape = "SP"   -> " "
    [] ln.shape = "LEAD" -> " " \o TimeTokens[ln.t1] \o " " \o TimeTokens[ln.t2] \o " " \o LabelTokens[ln.lab]
    [] ln.shape = "DBL"  -> TimeTokens[ln.t1] \o "  " \o TimeTokens[ln.t2] \o " " \o LabelTokens[ln.lab]
    [] ln.shape = "TAB"  -> TimeTokens[ln.t1] \o "\t" \o TimeTokens[ln.t2] \o "\t" \o LabelTokens[ln.lab]
\* "skip" | "ok" | "err" | "any" (outcome delegated entirely to jlabel)
Classify(ln) ==
  CASE ln.shape = "E"    -> "skip"
    [] ln.shape = "L"    -> IF LabelOK(ln.lab) THEN "ok" ELSE "err"
    [] ln.shape = "TTL"  -> IF TimeOK(ln.t1) /\ TimeOK(ln.t2) /\ LabelOK(ln.lab) THEN "ok" ELSE "err"
    [] ln.shape = "TT"   -> "err"            \* missing label after two times
    [] ln.shape = "TL"   -> "err"            \* two tokens only
    [] ln.shape = "TTLX" -> "err"            \* the rest of the line is not a label
    [] ln.shape = "SP"   -> "err"            \* two empty tokens
    [] ln.shape = "LEAD" -> "err"            \* empty start time
    [] ln.shape = "DBL"  -> "err"            \* empty end time
    [] ln.shape = "TAB"  -> "any"            \* tabs do not separate: the whole line is handed to jlabel as one label token,
                                             \* and jlabel accepts tabs inside the first phoneme - ok or err, but never a panic
Shapes == {"E", "L", "TTL", "TT", "TL", "TTLX", "SP", "LEAD", "DBL", "TAB"}
\* an utterance is an error iff some line is; otherwise its labels are those of the non-skipped lines, in order
UttResult(lines) == IF \E i \in 1..Len(lines) : Classify(lines[i]) = "err" THEN [kind |-> "err", labels |-> <<>>]
                    ELSE IF \E i \in 1..Len(lines) : Classify(lines[i]) = "any" THEN [kind |-> "any", labels |-> <<>>]
                    ELSE [kind |-> "ok", labels |-> SelectSeq([i \in 1..Len(lines) |-> IF Classify(lines[i]) = "ok" THEN lines[i].lab ELSE 0], LAMBDA x : x # 0)]
\* fixed expectations about the delegates (if one fails, the oracle or the table is broken: tool error, not a verdict)
OracleSane == TimeOK(1) /\ TimeOK(2) /\ ~TimeOK(10) /\ ~TimeOK(11) /\ LabelOK(1) /\ LabelOK(2) /\ ~LabelOK(4)
=============================================================================
