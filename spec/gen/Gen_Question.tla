---- MODULE Gen_Question ----
(* C04, question semantics: every question of the pool (real questions of the bundled voice, as C04 quantifies) is placed
   at the root of the duration tree of a small voice, alone or beside a second question, and the specification says which PDF each label of the table must select (Glob!QTest:
   HTS wildcard matching of any pattern of the list against the whole label).  Same case shape as Gen_Voice. *)
EXTENDS Voice, Json
CONSTANT AllPairs   \* TRUE: every ordered pair of pool questions; FALSE: each question alone and beside two others
VARIABLES q1, q2
F0 == [nstate |-> 1, nstream |-> 2, winset |-> 2, stage |-> 0, gv |-> FALSE, shape |-> 1, quoted |-> TRUE, salt |-> 0]
\* every other voice has a multi-space stream of vector length 2 (PDF length 2 x length x windows + 1)
F == IF q1 % 2 = 0 THEN [F0 EXCEPT !.salt = 1000, !.nstate = 2] ELSE F0
Init == q1 = 0 /\ q2 = 0
Next == q1 = 0 /\ q1' \in 1..NQ /\ q2' \in (IF AllPairs THEN 0..NQ ELSE {0, 1 + (q1' % NQ), 1 + ((q1' + 11) % NQ)})
Spec == Init /\ [][Next]_<<q1, q2>>
\* one question: yes -> pdf 2, no -> pdf 1;  two questions: q1 no -> (q2 ? pdf 2 : pdf 1), q1 yes -> pdf 3
\* one word of every duration PDF of these voices is the float32 NEGATIVE zero (<<0, 99>> by convention: bit pattern 0x80000000);
\* a reader must hand the entry on with its sign bit (bit-equality is the property)
NegZero == <<0, 99>>
DurWordsNZ(p) == LET w == DurWords(F, p) IN [i \in 1..Len(w) |-> IF i = Len(w) THEN NegZero ELSE w[i]]
DurQ == IF q2 = 0
        THEN [qs |-> << QuestionTable[q1] >>, trees |-> << [state |-> 2, leaf |-> 0, nodes |-> << Row(0, q1, P(1), P(2)) >>] >>,
              pdfs |-> << [p \in 1..2 |-> DurWordsNZ(p)] >>]
        ELSE [qs |-> << QuestionTable[q1], QuestionTable[q2] >>,
              trees |-> << [state |-> 2, leaf |-> 0, nodes |-> << Row(0, q1, N(-1), P(3)), Row(-1, q2, P(1), P(2)) >>] >>,
              pdfs |-> << [p \in 1..3 |-> DurWordsNZ(p)] >>]
DocQ == [Doc(F) EXCEPT !.dur = DurQ]
ModelSays(m, states) == [trees |-> Len(m.trees),
    sel |-> [st \in 1..Len(states) |-> [l \in 1..NL |-> Select(m, states[st], l)]],
    pdfs |-> m.pdfs]
Says(v) == [rate |-> v.rate, fperiod |-> v.fperiod, nstate |-> v.nstate, nstream |-> Len(v.streams),
   dur |-> ModelSays(v.dur, <<2>>),
   streams |-> [s \in 1..Len(v.streams) |-> LET st == v.streams[s] IN
      [name |-> st.name, vlen |-> st.vlen, msd |-> st.msd, nwin |-> Len(st.wins), usegv |-> st.usegv, opts |-> st.opts,
       wins |-> st.wins, model |-> ModelSays(st.model, [i \in 1..v.nstate |-> i + 1]),
       gv |-> IF st.usegv THEN ModelSays(st.gv, <<2>>) ELSE [trees |-> 0, sel |-> <<>>, pdfs |-> <<>>]]],
   gvoff |-> [l \in 1..NL |-> GvOffTable[l]]]
\* one very deep tree: a chain of n = 70000 nodes that all ask question q (no -> next node, yes -> leaf i, the last "no" -> leaf
\* n + 1), with n + 1 PDFs - more nodes and PDFs than 16 bits can index.  The file is assembled around a real voice by
\* bin/htsvoice.py (chain_voice); which PDF each label selects is said here.
\* (and a short chain of 9 nodes: its 10 PDFs make the binary data section begin with the byte 0x0A, a line feed)
ChainCase(q, n) == [kind |-> "chain", n |-> n, name |-> QuestionTable[q].name, pats |-> QuestionTable[q].pats,
                    expect |-> [l \in 1..NL |-> IF QTable[q][l] THEN 1 ELSE n + 1]]
ChainEmit == q1 # 0 \/ \A q \in {4, 6}, n \in {9, 70000} : PrintT(<<"CASE", ToJson(ChainCase(q, n))>>)
Emit == ChainEmit /\ (q1 = 0 \/ (q1 = q2) \/ LET v == DocQ IN DocOK(v) /\ PrintT(<<"CASE", ToJson([fam |-> [F EXCEPT !.salt = 100 * q1 + q2], voice |-> Render(v), says |-> Says(v)])>>))
\* every question of the pool separates the label table (the three regex-fallback questions of the bundled voice never hold)
====
