---------------------------- MODULE GenInt ----------------------------
(* The incremental generator (C02, spec/Generator.tla) for utterances of ANY length and buffers of ANY size, for Apalache.

   spec/Generator.tla keeps the ghost sequence `out` of frames handed to the caller; TLC explores it for totals <= 6.
   Here `out` is represented by what the property needs of it: its length `olen` and the flag `contig` ("out is exactly
   <<0, 1, .., olen-1>>": appending frame f keeps it iff f = olen).  Apalache checks that Inv is inductive, i.e. holds for
   every total in Nat, every sequence of Step(b) (b >= 1), Query and Finish calls. *)
EXTENDS Integers

VARIABLES
  \* @type: Int;
  total,
  \* @type: Int;
  next,
  \* @type: Bool;
  alive,
  \* @type: Int;
  olen,
  \* @type: Bool;
  contig,
  \* @type: Int;
  ret

Init == /\ total \in Int /\ total >= 0
        /\ next = 0 /\ alive = TRUE /\ olen = 0 /\ contig = TRUE /\ ret = 0

\* a step with a buffer of b >= 1 frames: one frame, or nothing once exhausted
Step(b) == /\ alive /\ b >= 1
           /\ IF next >= total
                THEN ret' = 0 /\ UNCHANGED <<next, olen, contig>>
                ELSE ret' = 1 /\ next' = next + 1 /\ olen' = olen + 1 /\ contig' = (contig /\ next = olen)
           /\ UNCHANGED <<total, alive>>
Query == alive /\ ret' = next /\ UNCHANGED <<total, next, alive, olen, contig>>
\* Finish hands over frames next .. total-1
Finish == /\ alive
          /\ ret' = total - next
          /\ olen' = olen + (total - next)
          /\ contig' = (contig /\ (next = olen \/ next = total))
          /\ next' = total /\ alive' = FALSE /\ UNCHANGED total

Next == (\E b \in Int : Step(b)) \/ Query \/ Finish

Inv == /\ total >= 0 /\ next >= 0 /\ next <= total
       /\ olen = next                       \* CursorExact: the frames-produced query is exact
       /\ contig                            \* PrefixOfOneShot: no gap, no repeat, in order
       /\ (~alive => olen = total)          \* FinishCompletes
IndInit == /\ total \in Int /\ next \in Int /\ olen \in Int /\ ret \in Int /\ alive \in BOOLEAN /\ contig \in BOOLEAN
           /\ Inv
=============================================================================
