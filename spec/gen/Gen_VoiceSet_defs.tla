---- MODULE Gen_VoiceSet_defs ----
EXTENDS Gen_VoiceSet
F1 == [nstate |-> 2, nstream |-> 3, winset |-> 2, stage |-> 0, gv |-> TRUE, shape |-> 2, quoted |-> TRUE, salt |-> 0]
F2 == [nstate |-> 1, nstream |-> 2, winset |-> 1, stage |-> 2, gv |-> FALSE, shape |-> 4, quoted |-> FALSE, salt |-> 1]
F3 == [nstate |-> 3, nstream |-> 3, winset |-> 4, stage |-> 0, gv |-> TRUE, shape |-> 5, quoted |-> TRUE, salt |-> 2]
FamsA == <<F1, F2>>
FamsB == <<F1, F2, F3>>
FamsW == <<F1>>
====
