CONSTANTS NStates = {1, 2, 3, 4}  MaxDur = 3  VLens = {1, 2}  Salts = {0, 1, 2}  WinSets = {1, 2, 3, 4, 5, 6, 7, 8, 9}
SPECIFICATION Spec
INVARIANTS Structure Emit
CHECK_DEADLOCK FALSE
