CONSTANTS Mode = "lspbeta"  Orders = {4, 5}  Salts = {0}  Alphas <- AlphasQ  Rates = {16000}  Betas = {0, 1, 2}  Stages = {1, 2}
SPECIFICATION Spec
INVARIANTS Emit Pre
CHECK_DEADLOCK FALSE
