---- MODULE MC_Deps ----
(* The dependency map's isolation laws over ALL conditions (C11, C12, C15, C16, C17, C08/C09 clauses). *)
EXTENDS Engine
MCUtts == { [id |-> 1, form |-> "slice", timed |-> FALSE], [id |-> 1, form |-> "vec", timed |-> TRUE], [id |-> 2, form |-> "labels", timed |-> FALSE] }
VARIABLE c
DInit == Init /\ c \in AllConds
DNext == UNCHANGED <<vars, c>>
DSpec == DInit /\ [][DNext]_<<vars, c>>
Laws == \A u \in Utts : /\ IsolationAt(c, u) /\ NoGvNoWeightAt(c, u) /\ HalfToneOnlyF0At(c, u) /\ VolumeOnlyGainAt(c, u) /\ SpeedVsAlignAt(c, u)
                         /\ \A u2 \in Utts : FormIrrelevantAt(c, u, u2)
\* non-vacuity: the keys do depend on the fields they should depend on
Sensitive == \A u \in Utts : /\ TrajKey([c EXCEPT !.ht = 3 - c.ht], u, F0Stream) # TrajKey(c, u, F0Stream)
                             /\ AudioKey([c EXCEPT !.vol = 3 - c.vol], u) # AudioKey(c, u)
                             /\ \A s \in Streams : TrajKey([c EXCEPT !.thr[s] = 3 - c.thr[s]], u, s) # TrajKey(c, u, s)
                             /\ \A s \in GvStreams : TrajKey([c EXCEPT !.gvw[s] = 3 - c.gvw[s]], u, s) # TrajKey(c, u, s)
====
