CONSTANTS D = 4  N = {1}  Means = {1}  Varis = {1}  Mode = "align"
  NL = {0, 1, 2, 3} NState = {1, 2} ParamSets = {1, 2, 3} Ends <- EndsFull Starts <- StartsFull
SPECIFICATION Spec
INVARIANT Emit
CHECK_DEADLOCK FALSE
