---- MODULE MC_SpectralGrid ----
(* (1) the fixed-point Chebyshev recurrence stays within its error budget of the exact value
       (exact: 16^n T_n(k/16) by the integer recurrence E_{n+1} = 2 k E_n - 256 E_{n-1}) for the orders
       where the exact value fits in 32 bits;
   (2) the LSP closed form equals the definition by polynomial multiplication for orders 1..4. *)
EXTENDS SpectralGrid, TLC
CONSTANTS MaxN, KS
MCKS == {-6, -3, -1, 2, 5, 7}
VARIABLES k, n, ks, X
vars == <<k, n, ks, X>>
RECURSIVE Ex(_,_,_,_,_)
Ex(kk, d, nn, cur, prev) == IF d = nn THEN cur ELSE Ex(kk, d + 1, nn, 2 * kk * cur - 256 * prev, cur)
Exact16(kk, nn) == IF nn = 0 THEN 1 ELSE Ex(kk, 1, nn, kk, 1)         \* 16^n T_n(k/16)
Init == k \in Grid /\ n \in 0..MaxN /\ ks = <<>> /\ X = 0
Dec(s) == \A i \in 1..(Len(s) - 1) : s[i] > s[i + 1]
Next == /\ ks = <<>> /\ \E m \in 1..3 : \E s \in [1..m -> KS] : Dec(s) /\ ks' = s
        /\ \E x \in {-8, 0, 8} : X' = x
        /\ UNCHANGED <<k, n>>
Spec == Init /\ [][Next]_vars
\* (1) |T_fix - T_exact| * 16^n <= n^2 * 16^n / 2^21 (+1): compare on the common scale 2^20 * 16^n / 16^n
ChebBudget == n <= 5 => Abs(T(k, n) - Exact16(k, n) * Pow(2, 20 - 4 * n)) <= n * n
ChebBounded == Abs(T(k, n)) <= ONE + n * n
\* (2) closed form against the definition at cos(theta) in {-1, 0, 1}, where T_d is an integer:
\*     |2A c|^2 = sum_d (2 - [d=0]) r_d T_d(x)   and   |A|^2 = N / 4^(m+2)   with 2A scaled by c = 4^ceil(m/2)
TwoA2Int(kk, XX) == LET a == TwoA(kk)  DD == Len(a) - 1
                        RECURSIVE S(_) S(d) == IF d > DD THEN 0 ELSE (IF d = 0 THEN 1 ELSE 2) * Auto(a, d) * (T8(XX, d) \div Pow(8, d)) + S(d + 1)
                    IN S(0)
ClosedForm == ks # <<>> => LET m == Len(ks)  c == Pow(4, (m + 1) \div 2) IN
                TwoA2Int(ks, X) * Pow(4, m + 2) = 4 * c * c * NumA2(ks, X)
\* (3) the closed form on the twice finer grid agrees with (2) where both are defined: NumA2h(ks, 2X) = 2^(m+1) NumA2(ks, X)
HalfGrid == ks # <<>> => \A x \in -7..7 : NumA2h(ks, 2 * x) = Pow2(Len(ks) + 1) * NumA2(ks, x)
====
