CONSTANTS
  FLits <- MCF
  ULits <- MCU
  VLits <- MCV
  NStream = 1
  HdrRate = "240"  HdrFperiod = "240"  HdrAlpha = "0.5"
SPECIFICATION Spec
INVARIANTS RangeLaw Commute Idempotent
PROPERTY OnlyOneFieldChanges
CHECK_DEADLOCK FALSE
