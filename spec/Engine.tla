------------------------------- MODULE Engine -------------------------------
(* The public API as a machine (DESIGN 3.10): engines (condition + voice set), clones, setters,
   one-shot synthesis and live generators.  The waveform is abstract: every artefact of a synthesis call is
   identified by a content key built from the DEPENDENCY MAP below - which condition fields each artefact may
   depend on.  Conformance (harness engine-replay) checks that artefacts with equal keys are bit-identical,
   which is at once determinism, purity, history-irrelevance of setters, clone independence, the isolation
   claims of C11 / C15 / C16 and the input-form claims of C17.

   Condition fields take abstract values 1 (the voice's default) or 2 (an alternative); utterances are
   records [id, form, timed]: the same label sequence in different input forms, with or without time stamps. *)
EXTENDS Integers, Sequences, FiniteSets, TLC

CONSTANTS Engines, Gens, Utts, NStream, GvStreams, Hidden,
          SFields, TFields          \* which scalar / per-stream fields the setter actions range over (bounds the model)
F0Stream == 2                       \* log-F0 is the second stream
Vals == {1, 2}
Streams == 1..NStream

VARIABLES eng,      \* Engines -> condition record, or NoEng
          gen,      \* Gens -> [key, pos] of a live generator, or NoGen
          outs,     \* set of <<key, value>> pairs observed so far (ghost: for the determinism invariant)
          noise,    \* hidden shared state; only used when Hidden = TRUE (a deliberately wrong design)
          last      \* the last API call with what the specification expects of it
vars == <<eng, gen, outs, noise, last>>

NoEng == [none |-> TRUE]
NoGen == [none |-> TRUE]
Default == [speed |-> 1, thr |-> [s \in Streams |-> 1], gvw |-> [s \in Streams |-> 1], ht |-> 1, vol |-> 1,
            alpha |-> 1, beta |-> 1, align |-> FALSE, fperiod |-> 1, rate |-> 1,
            iw |-> 1]     \* interpolation weights of the voice set (duration, every stream, every GV): 1 = the uniform default, 2 = others

\* ---- the dependency map
DurKey(c, u) == [labels |-> u.id, iw |-> c.iw,
                 mode |-> IF c.align THEN (IF u.timed THEN <<"aligned", c.fperiod, c.rate>> ELSE <<"aligned-untimed">>)
                          ELSE <<"speed", c.speed>>]
TrajKey(c, u, s) == [dur |-> DurKey(c, u), stream |-> s, thr |-> c.thr[s],
                     gvw |-> IF s \in GvStreams THEN c.gvw[s] ELSE 0,
                     ht |-> IF s = F0Stream THEN c.ht ELSE 0]
ShapeKey(c, u) == [traj |-> [s \in Streams |-> TrajKey(c, u, s)], fperiod |-> c.fperiod, rate |-> c.rate,
                   alpha |-> c.alpha, beta |-> c.beta]
AudioKey(c, u) == [shape |-> ShapeKey(c, u), vol |-> c.vol]
Keys(c, u) == [dur |-> DurKey(c, u), traj |-> [s \in Streams |-> TrajKey(c, u, s)], audio |-> AudioKey(c, u)]
\* what a call returns: a pure function of the key - unless the design has hidden state
Value(k) == IF Hidden THEN <<k, noise>> ELSE <<k, 0>>

Init == /\ eng = [e \in Engines |-> IF e = CHOOSE x \in Engines : TRUE THEN Default ELSE NoEng]
        /\ gen = [g \in Gens |-> NoGen] /\ outs = {} /\ noise = 0
        /\ last = [act |-> "load"]

Live(e) == eng[e] # NoEng
SetField(e, f, v) == /\ Live(e) /\ eng' = [eng EXCEPT ![e][f] = v]
                     /\ last' = [act |-> "set", e |-> e, field |-> f, s |-> 0, v |-> v]
                     /\ UNCHANGED <<gen, outs, noise>>
SetStream(e, f, s, v) == /\ Live(e) /\ eng' = [eng EXCEPT ![e][f][s] = v]
                         /\ last' = [act |-> "set", e |-> e, field |-> f, s |-> s, v |-> v]
                         /\ UNCHANGED <<gen, outs, noise>>
SetAlign(e, b) == /\ Live(e) /\ eng' = [eng EXCEPT ![e].align = b]
                  /\ last' = [act |-> "set", e |-> e, field |-> "align", s |-> 0, v |-> IF b THEN 2 ELSE 1]
                  /\ UNCHANGED <<gen, outs, noise>>
Clone(e, e2) == /\ Live(e) /\ ~Live(e2) /\ eng' = [eng EXCEPT ![e2] = eng[e]]
                /\ last' = [act |-> "clone", e |-> e, e2 |-> e2]
                /\ UNCHANGED <<gen, outs, noise>>
Synth(e, u) == /\ Live(e)
               /\ outs' = outs \cup {Value(AudioKey(eng[e], u))}
               /\ noise' = IF Hidden THEN (noise + 1) % 3 ELSE noise
               /\ last' = [act |-> "synth", e |-> e, u |-> u, keys |-> Keys(eng[e], u)]
               /\ UNCHANGED <<eng, gen>>
MakeGen(e, u, g) == /\ Live(e) /\ gen[g] = NoGen
                    /\ gen' = [gen EXCEPT ![g] = [key |-> AudioKey(eng[e], u), pos |-> 0]]
                    /\ last' = [act |-> "gen", e |-> e, u |-> u, g |-> g, keys |-> Keys(eng[e], u)]
                    /\ UNCHANGED <<eng, outs, noise>>
StepGen(g) == /\ gen[g] # NoGen
              /\ gen' = [gen EXCEPT ![g].pos = @ + 1]
              /\ last' = [act |-> "step", g |-> g, key |-> gen[g].key, pos |-> gen[g].pos]
              /\ UNCHANGED <<eng, outs, noise>>
FinishGen(g) == /\ gen[g] # NoGen
                /\ gen' = [gen EXCEPT ![g] = NoGen]
                /\ outs' = outs \cup {Value(gen[g].key)}
                /\ last' = [act |-> "finish", g |-> g, key |-> gen[g].key, pos |-> gen[g].pos]
                /\ UNCHANGED <<eng, noise>>

Next == \/ \E e \in Engines, f \in SFields, v \in Vals : SetField(e, f, v)
        \/ \E e \in Engines, f \in TFields, s \in Streams, v \in Vals : SetStream(e, f, s, v)
        \/ \E e \in Engines, b \in BOOLEAN : SetAlign(e, b)
        \/ \E e, e2 \in Engines : Clone(e, e2)
        \/ \E e \in Engines, u \in Utts : Synth(e, u)
        \/ \E e \in Engines, u \in Utts, g \in Gens : MakeGen(e, u, g)
        \/ \E g \in Gens : StepGen(g) \/ FinishGen(g)
Spec == Init /\ [][Next]_vars

--------------------------------------------------------------------------
(* Properties *)
\* C03: the observed outputs are a function of the content key
Deterministic == \A a, b \in outs : a[1] = b[1] => a[2] = b[2]
\* C03: synthesis and generators never change an engine's settings; a setter changes exactly one engine
CallsArePure == [][(last'.act \in {"synth", "gen", "step", "finish"}) => eng' = eng]_vars
SetterLocal == [][(last'.act = "set") => \A e \in Engines : e # last'.e => eng'[e] = eng[e]]_vars
\* C03: a live generator is frozen at creation: later setter calls do not change what it will produce
GenFrozen == [][\A g \in Gens : (gen[g] # NoGen /\ gen'[g] # NoGen) => gen'[g].key = gen[g].key]_vars
\* C03: a clone starts with exactly the settings of its origin and creating it touches nothing else
CloneCopies == [][(last'.act = "clone") => /\ eng'[last'.e2] = eng[last'.e]
                                           /\ \A e \in Engines : e # last'.e2 => eng'[e] = eng[e]
                                           /\ gen' = gen /\ outs' = outs]_vars
\* C03: generators are private to their caller: driving one never moves another, and only finish publishes audio
GenIndependent == [][(last'.act \in {"step", "finish"}) => \A h \in Gens : h # last'.g => gen'[h] = gen[h]]_vars
OutsOnlyByCalls == [][outs' # outs => last'.act \in {"synth", "finish"}]_vars
\* ---- laws of the dependency map itself, for an arbitrary condition c and utterances u, u2 (checked over all
\*      conditions in MC_Deps)
AllConds == [speed : Vals, thr : [Streams -> Vals], gvw : [Streams -> Vals], ht : Vals, vol : Vals, alpha : Vals, beta : Vals,
             align : BOOLEAN, fperiod : Vals, rate : Vals, iw : Vals]
\* C11: one stream's threshold or GV weight is not in another stream's trajectory key
IsolationAt(c, u) == \A s, t \in Streams : \A v, w \in Vals :
               s # t => TrajKey([c EXCEPT !.thr[s] = v, !.gvw[s] = w], u, t) = TrajKey(c, u, t)
\* C12: a stream without GV does not depend on its GV weight
NoGvNoWeightAt(c, u) == \A s \in Streams \ GvStreams : \A w \in Vals : TrajKey([c EXCEPT !.gvw[s] = w], u, s) = TrajKey(c, u, s)
\* C15: the half tone is only in the log-F0 trajectory key;  C16: the volume is in no trajectory / duration / shape key
HalfToneOnlyF0At(c, u) == \A s \in Streams \ {F0Stream} : \A v \in Vals :
               TrajKey([c EXCEPT !.ht = v], u, s) = TrajKey(c, u, s) /\ DurKey([c EXCEPT !.ht = v], u) = DurKey(c, u)
VolumeOnlyGainAt(c, u) == \A v \in Vals : ShapeKey([c EXCEPT !.vol = v], u) = ShapeKey(c, u)
\* C17: input form is not part of any key; time stamps matter only under alignment
FormIrrelevantAt(c, u1, u2) == (u1.id = u2.id /\ (u1.timed = u2.timed \/ ~c.align)) => AudioKey(c, u1) = AudioKey(c, u2)
\* C08/C09: speed is irrelevant under alignment and time stamps / rate / frame period are irrelevant to durations without it
SpeedVsAlignAt(c, u) == /\ (c.align => \A v \in Vals : DurKey([c EXCEPT !.speed = v], u) = DurKey(c, u))
                        /\ (~c.align => \A v, w \in Vals : DurKey([c EXCEPT !.fperiod = v, !.rate = w], u) = DurKey(c, u))
=============================================================================
