---------------------------- MODULE Condition ----------------------------
(* jbonsai::engine::Condition as a machine over ordered literal tables (DESIGN 3.9).

   Real arguments are drawn from FLits, an ascending table of f64 literals given as decimal
   strings (the harness parses them with str::parse::<f64>); the state stores table indices,
   so "clamp to [lo,hi]" is clamp on indices of the literals lo, hi and the specification
   never needs real arithmetic.  usize arguments come from ULits the same way.
   Volume is kept in dB in the specification (the implementation stores a linear gain);
   its getter is compared with a tolerance by the harness, every other getter exactly. *)
EXTENDS Integers, Sequences

CONSTANTS FLits,      \* ascending f64 literals (strings); must contain "0", "1", "1e-6", "0.5"
          ULits,      \* ascending usize literals (strings); must contain "1"
          VLits,      \* volume literals in dB (strings); must contain "0"
          NStream,    \* number of streams of the loaded voice
          HdrRate, HdrFperiod, HdrAlpha   \* header values (literals) loaded by Engine::load

Idx(tab, s) == CHOOSE i \in 1..Len(tab) : tab[i] = s
F(s) == Idx(FLits, s)
U(s) == Idx(ULits, s)

Min2(a, b) == IF a < b THEN a ELSE b
Max2(a, b) == IF a > b THEN a ELSE b
ClampI(x, lo, hi) == Max2(lo, Min2(x, hi))

Streams == 0..(NStream - 1)

VARIABLE c      \* the condition: indices into the tables
vars == <<c>>

Default == [ rate    |-> U(HdrRate),
             fperiod |-> U(HdrFperiod),
             volume  |-> Idx(VLits, "0"),
             thr     |-> [s \in Streams |-> F("0.5")],
             gvw     |-> [s \in Streams |-> F("1")],
             align   |-> FALSE,
             speed   |-> F("1"),
             alpha   |-> F(HdrAlpha),
             beta    |-> F("0"),
             halftone|-> F("0") ]

Init == c = Default

\* ---- one action per setter; x is a table index
SetRate(x)      == c' = [c EXCEPT !.rate    = Max2(x, U("1"))]
SetFperiod(x)   == c' = [c EXCEPT !.fperiod = Max2(x, U("1"))]
SetVolume(x)    == c' = [c EXCEPT !.volume  = x]
SetThr(s, x)    == c' = [c EXCEPT !.thr[s]  = ClampI(x, F("0"), F("1"))]
SetGvw(s, x)    == c' = [c EXCEPT !.gvw[s]  = Max2(x, F("0"))]
SetAlign(b)     == c' = [c EXCEPT !.align   = b]
SetSpeed(x)     == c' = [c EXCEPT !.speed   = Max2(x, F("1e-6"))]
SetAlpha(x)     == c' = [c EXCEPT !.alpha   = ClampI(x, F("0"), F("1"))]
SetBeta(x)      == c' = [c EXCEPT !.beta    = ClampI(x, F("0"), F("1"))]
SetHalfTone(x)  == c' = [c EXCEPT !.halftone= x]

FI == 1..Len(FLits)
UI == 1..Len(ULits)
VI == 1..Len(VLits)

Next == \/ \E x \in UI : SetRate(x) \/ SetFperiod(x)
        \/ \E x \in VI : SetVolume(x)
        \/ \E s \in Streams, x \in FI : SetThr(s, x) \/ SetGvw(s, x)
        \/ \E b \in BOOLEAN : SetAlign(b)
        \/ \E x \in FI : SetSpeed(x) \/ SetAlpha(x) \/ SetBeta(x) \/ SetHalfTone(x)

Spec == Init /\ [][Next]_vars

--------------------------------------------------------------------------
(* Properties (C20) *)
InUnit(i) == F("0") <= i /\ i <= F("1")
RangeLaw == /\ c.rate >= U("1") /\ c.fperiod >= U("1")
            /\ \A s \in Streams : InUnit(c.thr[s]) /\ c.gvw[s] >= F("0")
            /\ c.speed >= F("1e-6") /\ InUnit(c.alpha) /\ InUnit(c.beta)

\* a setter never touches another field (action property)
Frame(f) == [][ \A g \in DOMAIN c : (g # f /\ c'[f] # c[f]) => c'[g] = c[g] ]_vars
OnlyOneFieldChanges == [][ \A f, g \in DOMAIN c : (f # g /\ c'[f] # c[f]) => c'[g] = c[g] ]_vars

\* textual image of a state for the conformance harness
Img(cc) == [ rate |-> ULits[cc.rate], fperiod |-> ULits[cc.fperiod], volume |-> VLits[cc.volume],
             thr |-> [s \in 1..NStream |-> FLits[cc.thr[s-1]]], gvw |-> [s \in 1..NStream |-> FLits[cc.gvw[s-1]]],
             align |-> cc.align, speed |-> FLits[cc.speed], alpha |-> FLits[cc.alpha], beta |-> FLits[cc.beta],
             halftone |-> FLits[cc.halftone] ]
==========================================================================
