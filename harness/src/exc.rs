//! C07: excitation observed through the public Vocoder with an all-zero spectrum (identity filter, gain 1).
use crate::util::*;
use jbonsai::vocoder::Vocoder;
use serde_json::{json, Value};

const NODATA: f64 = -1e10;

fn run_frames(nlpf: usize, rate: usize, fperiod: usize, lf0: &[f64], lpf: &[f64]) -> Vec<f64> {
    let mut v = Vocoder::new(2, nlpf, 0, false, rate, 0.0, 0.0, 1.0, fperiod);
    let mut out = Vec::with_capacity(lf0.len() * fperiod);
    for f in lf0 {
        let mut buf = vec![0.0; fperiod];
        v.synthesize(*f, &[0.0, 0.0], lpf, &mut buf);
        out.extend_from_slice(&buf);
    }
    out
}

fn exact_runs(rng: &mut Rng, evs: &mut Vec<Value>) {
    let q = *rng.pick(&[1usize, 2, 4]);
    let fperiod = *rng.pick(&[4usize, 6, 8, 12]);
    let rate = 16000usize;
    let nframes = 4 + rng.below(6);
    // periods P/q samples with P/q in [2, 9]; 0 = unvoiced
    let ps: Vec<usize> = (0..nframes).map(|_| if rng.chance(0.2) { 0 } else { 2 * q + rng.below(7 * q + 1) }).collect();
    let lf0: Vec<f64> = ps.iter().map(|p| if *p == 0 { NODATA } else { (rate as f64 * q as f64 / *p as f64).ln() }).collect();
    evs.push(json!({"ev": "reset", "q": q, "fperiod": fperiod}));
    match guarded(|| run_frames(0, rate, fperiod, &lf0, &[])) {
        Err(p) => evs.push(json!({"ev": "panic", "in": "vocoder", "msg": p})),
        Ok(x) => {
            for (f, p) in ps.iter().enumerate() {
                let smp: Vec<Value> = x[f * fperiod..(f + 1) * fperiod]
                    .iter()
                    .map(|v| {
                        if *p == 0 {
                            json!({"k": "n", "h2": 0})
                        } else if *v != 0.0 {
                            json!({"k": "p", "h2": (v * v * 1000.0).round() as i64})
                        } else {
                            json!({"k": "z", "h2": 0})
                        }
                    })
                    .collect();
                evs.push(json!({"ev": "frame", "p": p, "smp": smp}));
            }
        }
    }
}

fn pitch_run(rng: &mut Rng, evs: &mut Vec<Value>) {
    let rate = *rng.pick(&[8000usize, 16000, 22050, 44100, 48000, 96000]);
    let fperiod = 40 + rng.below(441);
    let f0 = match rng.below(8) {
        0 => 10.0,                              // below the 20 Hz limit
        1 if rate >= 44100 => 30000.0,          // above the 20 kHz limit (only where 20 kHz <= rate / 2: the property covers F0 <= rate / 2)
        2 => 20.0,
        _ => (20f64.ln() + rng.unit() * ((rate as f64 / 2.0).ln() - 20f64.ln())).exp(),
    };
    let f0c = f0.clamp(20.0, 20000.0);
    let t0 = rate as f64 / f0c;
    let nframes = ((6.0 * t0 / fperiod as f64).ceil() as usize).max(8).min(400);
    let lf0 = vec![f0.ln(); nframes];
    match guarded(|| run_frames(0, rate, fperiod, &lf0, &[])) {
        Err(p) => evs.push(json!({"ev": "panic", "in": "vocoder", "msg": p})),
        Ok(x) => {
            let pos: Vec<usize> = (0..x.len()).filter(|i| x[*i] != 0.0).collect();
            let gaps: Vec<i64> = pos.windows(2).map(|w| (w[1] - w[0]) as i64).take(300).collect();
            let h2: Vec<i64> = pos.iter().take(300).map(|i| (x[*i] * x[*i] * 1000.0).round() as i64).collect();
            let t0m = (t0 * 1000.0).round() as i64;
            let clampok = h2.iter().all(|h| (*h - t0m).abs() <= 2 + t0m / 100000);
            evs.push(json!({"ev": "pitch", "rate": rate, "fperiod": fperiod, "f0_milli": (f0 * 1000.0).round() as i64, "t0_milli": t0m,
                            "gaps": gaps, "h2_milli": h2, "npulse": pos.len(), "nsamp": x.len(), "clampok": clampok || (20.0..=20000.0).contains(&f0)}));
        }
    }
}

fn noise_run(rng: &mut Rng, evs: &mut Vec<Value>) {
    let nlpf = *rng.pick(&[0usize, 1, 5, 31]);
    let fperiod = 100 + rng.below(200);
    let nframes = 100_000 / fperiod + 1;
    let lpf: Vec<f64> = (0..nlpf).map(|i| if i == nlpf / 2 { 0.5 } else { 0.5 / nlpf as f64 }).collect();
    match guarded(|| run_frames(nlpf, 16000, fperiod, &vec![NODATA; nframes], &lpf)) {
        Err(p) => evs.push(json!({"ev": "panic", "in": "vocoder", "msg": p})),
        Ok(x) => {
            let n = x.len() as f64;
            let mean = x.iter().sum::<f64>() / n;
            let var = x.iter().map(|v| (v - mean) * (v - mean)).sum::<f64>() / n;
            let lags: Vec<i64> = (1..=5).map(|k| { let c: f64 = (0..x.len() - k).map(|i| (x[i] - mean) * (x[i + k] - mean)).sum::<f64>() / n / var; (c * 1e4).round() as i64 }).collect();
            evs.push(json!({"ev": "noise", "nlpf": nlpf, "n": x.len(), "mean_e4": (mean * 1e4).round() as i64, "var_e4": (var * 1e4).round() as i64, "lags_e4": lags}));
        }
    }
}

fn mixed_run(rng: &mut Rng, evs: &mut Vec<Value>) {
    let nlpf = if rng.chance(0.2) { 1 } else { 1 + 2 * rng.below(16) }; // order 1 (a single tap) is a case of its own
    let mut h8: Vec<i64> = (0..nlpf).map(|_| rng.range(-8, 8)).collect();
    // particular shapes: a centre tap of exactly zero (the delta of (delta - h) then stands alone), the all-zero filter,
    // zero outer taps
    match rng.below(10) {
        0 | 1 => h8[(nlpf - 1) / 2] = 0,
        2 => h8.iter_mut().for_each(|x| *x = 0),
        3 => {
            h8[0] = 0;
            h8[nlpf - 1] = 0;
        }
        _ => {}
    }
    let lpf: Vec<f64> = h8.iter().map(|h| *h as f64 / 8.0).collect();
    let rate = 16000usize;
    let fperiod = 20 + rng.below(40);
    let nframes = 3 + rng.below(4);
    let lf0: Vec<f64> = (0..nframes).map(|_| (100.0 + rng.unit() * 2000.0f64).ln()).collect();
    let r = guarded(|| {
        let x = run_frames(nlpf, rate, fperiod, &lf0, &lpf);
        let pulse = run_frames(0, rate, fperiod, &lf0, &[]);
        let noise = run_frames(0, rate, fperiod, &vec![NODATA; nframes], &[]);
        (x, pulse, noise)
    });
    match r {
        Err(p) => evs.push(json!({"ev": "panic", "in": "vocoder(mixed)", "msg": p})),
        Ok((x, pulse, noise)) => {
            let q = |v: &Vec<f64>| -> Vec<i64> { v.iter().map(|a| (a * 4096.0).round() as i64).collect() };
            evs.push(json!({"ev": "mixed", "h8": h8, "c": (nlpf - 1) / 2, "x": q(&x), "pulse": q(&pulse), "noise": q(&noise)}));
        }
    }
}

pub fn record(mode: &str, seed: u64, n: usize, out_path: &str) {
    let its: Vec<usize> = (0..n).collect();
    let all = par_map(&its, |_, it| {
        let mut rng = Rng::new(seed ^ 0xe7c ^ ((*it as u64) << 20));
        let mut evs = Vec::new();
        match mode {
            "exact" => exact_runs(&mut rng, &mut evs),
            "pitch" => pitch_run(&mut rng, &mut evs),
            "noise" => noise_run(&mut rng, &mut evs),
            "mixed" => mixed_run(&mut rng, &mut evs),
            m => die(&format!("unknown mode {}", m)),
        }
        evs
    });
    let mut out = Out::create(out_path);
    for evs in all {
        for e in evs {
            out.line(&e);
        }
    }
    out.finish();
}
