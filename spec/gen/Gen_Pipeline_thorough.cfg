CONSTANTS D = 4  NStates = {1, 2, 3, 7}  Shapes = {0, 3}  Salts = {0, 1}  Stages = {0, 1, 2}  WinSets = {1, 2, 3, 4, 5, 7}
  MaxUttStates = 14  MaxLabels = 2  LabelIdx = {1, 2, 7}  CondIdx = {1, 2, 3, 4, 5, 6, 7, 8}
SPECIFICATION Spec
INVARIANTS Emit EmitVoice
CHECK_DEADLOCK FALSE
