CONSTANTS Q = 4  FP = 6  Periods = {0, 9, 10, 12, 17, 30}  MaxFrames = 6
SPECIFICATION Spec
INVARIANTS Spacing CountLaw Glide Restart PeriodPositive
CHECK_DEADLOCK FALSE
