CONSTANTS D = 4  NStates = {1, 2, 3, 5, 7}  Shapes = {0, 1, 3, 4}  Salts = {0, 1, 2}  Stages = {0, 1, 2}  WinSets = {1, 2, 3, 4}
  MaxLabels = 3  LabelIdx = {1, 2, 7}  CondIdx = {1, 2, 3, 4, 5, 6, 7, 8}
SPECIFICATION Spec
INVARIANTS Emit EmitVoice
CHECK_DEADLOCK FALSE
