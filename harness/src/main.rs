#![allow(dead_code)]
mod c01;
mod c02;
mod c04;
mod voicegen;
mod c17;
mod c18;
mod c20;
mod spectral;
mod vset;
mod dur;
mod eng;
mod exc;
mod laws;
mod mlpg;
mod engine;
mod util;

use util::die;

fn main() {
    util::install_panic_hook();
    let a: Vec<String> = std::env::args().collect();
    if a.len() < 2 {
        die("usage: jbv <command> ...");
    }
    let n = |i: usize| -> usize { a.get(i).and_then(|s| s.parse().ok()).unwrap_or_else(|| die("bad numeric argument")) };
    match a[1].as_str() {
        "c01-record" => c01::record(n(2) as u64, n(3), n(4), &a[5], &a[6..]),
        "c01-replay" => c01::replay(&a[2], &a[3], &a[4]),
        "c02-replay" => c02::replay(&a[2], &a[3], a.get(4), a.get(5)),
        "c02-record" => c02::record(n(2) as u64, n(3), n(4), &a[5]),
        "c04-replay" => c04::replay(&a[2], &a[3], &a[4]),
        "c04-record" => c04::record(n(2) as u64, n(3), &a[4]),
        "c04-chain" => c04::chain(&a[2], &a[3], &a[4], &a[5]),
        "dur-record" => dur::record(n(2) as u64, n(3), &a[4], &a[5]),
        "dur-replay" => dur::replay(&a[2], &a[3]),
        "vset-record" => vset::record(n(2) as u64, n(3), &a[4], &a[5..]),
        "vset-replay" => vset::replay(&a[2], &a[3], &a[4]),
        "c18-run" => c18::run(&a[2], &a[3]),
        "c18-worker" => c18::worker(&a[2], n(3)),
        "spectral-run" => spectral::run(&a[2], &a[3]),
        "engine-replay" => engine::replay(&a[2], &a[3], &a[4]),
        "render" => {
            let v: serde_json::Value = serde_json::from_str(&std::fs::read_to_string(&a[2]).unwrap()).unwrap();
            std::fs::write(&a[3], voicegen::render(&v)).unwrap();
        }
        "laws-record" => laws::record(&a[2], n(3) as u64, n(4), &a[5], &a[6..]),
        "label-oracle" => c17::oracle(&a[2], &a[3]),
        "c17-replay" => c17::replay(&a[2], &a[3], &a[4]),
        "c17-record" => c17::record(n(2) as u64, n(3), &a[4], &a[5]),
        "mlpg-run" => mlpg::run(&a[2], &a[3]),
        "mlpg-record" => mlpg::record(n(2) as u64, n(3), n(4), &a[5]),
        "exc-record" => exc::record(&a[2], n(3) as u64, n(4), &a[5]),
        "c20-replay" => c20::replay(&a[2], &a[3]),
        other => die(&format!("unknown command {}", other)),
    }
}
