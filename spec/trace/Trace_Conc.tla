---- MODULE Trace_Conc ----
(* Trace validation for C03 (I->S): k threads share one Arc<Engine> (probe/conc-record).  Events are ordered by a
   global atomic ticket taken inside the logging call; per thread they alternate begin / end:
     snap{settings}                             the engine's observable settings before the run
     begin{thr, key}                            a call starts; key identifies (utterance, mode)
     end{thr, key, ukey, dg, settings}          it returned: digest of the samples, settings digest afterwards
   The specification carries the determinism table key -> digest and the settings snapshot. *)
EXTENDS Integers, Sequences, TLC, Json, IOUtils
Rec == ndJsonDeserialize(IOEnv.TRACE)
VARIABLES l, busy, table, snap
vars == <<l, busy, table, snap>>
IsEv(e) == l <= Len(Rec) /\ Rec[l].ev = e /\ l' = l + 1
Init == l = 1 /\ busy = [t \in {} |-> ""] /\ table = [k \in {} |-> ""] /\ snap = ""
Snap == IsEv("snap") /\ snap' = Rec[l].settings /\ busy' = [t \in {} |-> ""] /\ table' = [k \in {} |-> ""]
Begin == /\ IsEv("begin")
         /\ LET t == Rec[l].thr IN
              /\ (t \in DOMAIN busy => busy[t] = "")
              /\ busy' = [x \in DOMAIN busy \cup {t} |-> IF x = t THEN Rec[l].key ELSE busy[x]]
         /\ UNCHANGED <<table, snap>>
End == /\ IsEv("end")
       /\ LET t == Rec[l].thr  k == Rec[l].ukey IN                    \* table key: the utterance (both call styles agree, C02)
            /\ t \in DOMAIN busy /\ busy[t] = Rec[l].key
            /\ Rec[l].settings = snap                                  \* no call changes the engine's settings
            /\ (k \in DOMAIN table => table[k] = Rec[l].dg)            \* bit-identical output for equal keys
            /\ table' = [x \in DOMAIN table \cup {k} |-> IF x = k THEN Rec[l].dg ELSE table[x]]
            /\ busy' = [busy EXCEPT ![t] = ""]
       /\ UNCHANGED snap
Next == Snap \/ Begin \/ End
Spec == Init /\ [][Next]_vars
Accepted == IF TLCGet("stats").diameter - 1 = Len(Rec) THEN TRUE
            ELSE Print(<<"REJECT at", TLCGet("stats").diameter>>, FALSE)
====
