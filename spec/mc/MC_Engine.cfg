CONSTANTS Engines = {e1, e2}  Gens = {g1}  Utts <- MCUtts  NStream = 2  GvStreams = {1}  Hidden = FALSE
  SFields = {"speed", "ht"}  TFields = {}
SPECIFICATION Spec
INVARIANTS Deterministic
PROPERTIES CallsArePure SetterLocal GenFrozen CloneCopies GenIndependent OutsOnlyByCalls
CONSTRAINT Bound
VIEW View
CHECK_DEADLOCK FALSE
