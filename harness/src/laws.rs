//! Recorders for the quantised measurement laws of Trace_Laws (C11, C12, C15, C16).
//! Only observations of the implementation are logged; the laws are evaluated in TLA+.
use crate::eng::*;
use crate::util::*;
use jbonsai::duration::DurationEstimator;
use jbonsai::model::Models;
use jbonsai::Engine;
use jlabel::Label;
use serde_json::{json, Value};

const NODATA: f64 = -1e10;
const MIN_LF0: f64 = 2.995_732_273_553_991;
const MAX_LF0: f64 = 9.903_487_552_536_127;
const HALF_TONE: f64 = 0.057_762_265_046_662_11;

fn f32bits(x: f64) -> i64 {
    (x as f32).to_bits() as i64
}
type Traj = (Vec<Vec<f64>>, Vec<Vec<f64>>, Vec<Vec<f64>>);
fn trajectories(engine: &Engine, lines: &[String]) -> Result<Traj, String> {
    let g = engine.generator(lines).map_err(|e| e.to_string())?;
    let (a, b, c) = g.verif_trajectories();
    Ok((a.to_vec(), b.to_vec(), c.to_vec()))
}
fn durations(engine: &Engine, labels: &[Label]) -> Vec<usize> {
    let m = Models::new(labels, &engine.voices, engine.condition.get_interporation_weight());
    DurationEstimator::new(m.duration(), m.nstate()).create(engine.condition.get_speed())
}
fn parse_all(lines: &[String]) -> Vec<Label> {
    lines.iter().filter_map(|l| l.parse().ok()).collect()
}

/// corpus lines that select one of the voice's "never voiced" filler leaves of the log-F0 stream (mean 0, variance 1 in every window)
fn filler_lines<'a>(engine: &Engine, corpus: &'a Corpus) -> Vec<&'a String> {
    corpus.lines.iter().filter(|l| {
        let Ok(lab) = l.parse::<Label>() else { return false };
        let one = [lab];
        let m = Models::new(&one, &engine.voices, engine.condition.get_interporation_weight());
        m.model_stream(1).stream.iter().any(|(p, _)| p.iter().all(|mv| mv.0 == 0.0 && mv.1 == 1.0))
    }).collect()
}

fn voicing(engine0: &Engine, rng: &mut Rng, corpus: &Corpus, evs: &mut Vec<Value>) -> Result<(), String> {
    let nl = 2 + rng.below(10);
    let mut lines = corpus.utterance(rng, nl);
    let mut engine = engine0.clone();
    // now and then a label whose state selects a filler leaf (voicing weight 0.05, log-F0 mean 0): voiced only under thresholds below
    // its weight, and then with a log F0 around zero
    let with_filler = rng.chance(0.3);
    if with_filler {
        let fl = filler_lines(&engine, corpus);
        if !fl.is_empty() {
            let at = rng.below(lines.len() + 1);
            lines.insert(at, (*rng.pick(&fl)).clone());
        }
    }
    let labels = parse_all(&lines);
    // the voicing law holds under every condition: speed, GV weights, half tone, alpha, beta, volume ... are varied too
    // (a half tone must never turn the "no F0" marker of an unvoiced frame into a pitch)
    if rng.chance(0.7) {
        random_condition(&mut engine, rng, false);
    } else if rng.chance(0.5) {
        engine.condition.set_speed(rng.uniform(0.5, 2.0));
    }
    if rng.chance(0.5) {
        engine.condition.set_additional_half_tone(*rng.pick(&[-24.0, -5.5, 0.125, 3.0, 24.0]));
    }
    if with_filler && rng.chance(0.6) {
        engine.condition.set_additional_half_tone(0.0);
    }
    let m = Models::new(&labels, &engine.voices, engine.condition.get_interporation_weight());
    let msd: Vec<f64> = m.model_stream(1).stream.iter().map(|(_, w)| *w).collect();
    let dur = durations(&engine, &labels);
    // thresholds: f32-representable values, several equal to a state's voicing weight or one f32 ulp around it
    let mut thr: Vec<f32> = (0..4).map(|_| (rng.below(1025) as f32) / 1024.0).collect();
    if with_filler {
        thr.push(0.0);
        thr.push(0.04);
    }
    // thresholds that no f32 holds: a hair (1e-10) below / above a state's voicing weight.  (f32 value, side): side -1 means
    // "just below that f32 value" (a weight equal to it exceeds the threshold), +1 "just above"
    let mut hair: Vec<(f32, i64)> = Vec::new();
    for _ in 0..3 {
        let w = msd[rng.below(msd.len())] as f32;
        if (0.0..=1.0).contains(&w) {
            thr.push(w);
            thr.push(f32::from_bits(w.to_bits().saturating_sub(1)));
            thr.push(f32::from_bits(w.to_bits() + 1).min(1.0));
            if w > 0.001 && w < 0.999 {
                hair.push((w, if rng.chance(0.5) { -1 } else { 1 }));
            }
        }
    }
    thr.sort_by(|a, b| a.partial_cmp(b).unwrap());
    let base = trajectories(&engine, &lines)?;
    for (w, side) in hair {
        let t = w as f64 + side as f64 * 1e-10;
        engine.condition.set_msd_threshold(1, t);
        let (_, lf0, _) = trajectories(&engine, &lines)?;
        let nodata: Vec<bool> = lf0.iter().map(|f| f[0] == NODATA).collect();
        evs.push(json!({"ev": "voicing", "first": true, "thr_bits": f32bits(w as f64), "side": side, "msd_bits": msd.iter().map(|w| f32bits(*w)).collect::<Vec<_>>(),
                        "dur": dur, "nodata": nodata}));
    }
    for (i, t) in thr.iter().enumerate() {
        engine.condition.set_msd_threshold(1, *t as f64);
        let (sp, lf0, lpf) = trajectories(&engine, &lines)?;
        let nodata: Vec<bool> = lf0.iter().map(|f| f[0] == NODATA).collect();
        evs.push(json!({"ev": "voicing", "first": i == 0, "thr_bits": f32bits(*t as f64), "side": 0, "msd_bits": msd.iter().map(|w| f32bits(*w)).collect::<Vec<_>>(),
                        "dur": dur, "nodata": nodata}));
        evs.push(json!({"ev": "isolated", "what": "thr[1]", "spectrum_equal": digest2(&sp) == digest2(&base.0), "lpf_equal": digest2(&lpf) == digest2(&base.2)}));
    }
    // rendering: the engine's waveform is what the public vocoder makes of the trajectories, voiced frames as pulses at
    // F0 limited to 20 Hz .. 20 kHz, "no F0" frames as noise (a voiced frame whose log-F0 undershoots ln 20 after a
    // downward transposition is still voiced).  Stage 0 voices at 0 dB only (the linear gain is not readable back exactly).
    if engine.voices.stream_metadata(0).option.iter().all(|o| !o.starts_with("GAMMA")) {
        engine.condition.set_volume(0.0);
        engine.condition.set_msd_threshold(1, thr[rng.below(thr.len())] as f64);
        if rng.chance(0.85) {
            engine.condition.set_additional_half_tone(*rng.pick(&[-24.0, -24.0, -24.0, -23.0, -21.5]));
        }
        engine.condition.set_gv_weight(1, *rng.pick(&[1.0, 1.5, 2.0]));
        let (sp, lf0, lpf) = trajectories(&engine, &lines)?;
        let low = lf0.iter().filter(|f| f[0] != NODATA && f[0] < MIN_LF0).count();
        let limited: Vec<Vec<f64>> = lf0.iter().map(|f| vec![if f[0] == NODATA { NODATA } else { f[0].clamp(MIN_LF0, MAX_LF0) }]).collect();
        let nlpf = if engine.voices.global_metadata().num_streams > 2 { engine.voices.stream_metadata(2).vector_length } else { 0 };
        let c = &engine.condition;
        let fp = c.get_fperiod();
        let voc = jbonsai::vocoder::Vocoder::new(engine.voices.stream_metadata(0).vector_length, nlpf, 0, false, c.get_sampling_frequency(),
                                                 c.get_alpha(), c.get_beta(), 1.0, fp);
        let direct = jbonsai::speech::SpeechGenerator::new(fp, voc, sp, limited, lpf).generate_all();
        let w = engine.synthesize(&lines[..]).map_err(|e| e.to_string())?;
        evs.push(json!({"ev": "render", "equal": digest(&w) == digest(&direct), "frames": lf0.len(), "voiced_below_20hz": low,
                        "unvoiced": lf0.iter().filter(|f| f[0] == NODATA).count()}));
    }
    // wiring of one engine call: the hooked trajectories are what the public pipeline (Models -> DurationEstimator -> MlpgAdjust per
    // stream, each with its own GV weight and threshold, the half tone on the log-F0 stream only) gives under the same condition
    {
        let mut e3 = engine0.clone();
        random_condition(&mut e3, rng, true);
        let (sp, lf0, lpf) = trajectories(&e3, &lines)?;
        let hooked = [sp, lf0, lpf];
        let c = &e3.condition;
        let m3 = Models::new(&labels, &e3.voices, c.get_interporation_weight());
        let d3 = DurationEstimator::new(m3.duration(), m3.nstate()).create(c.get_speed());
        let mut equal = true;
        for s in 0..e3.voices.global_metadata().num_streams {
            let mut ms = m3.model_stream(s);
            if s == 1 {
                ms.stream.apply_additional_half_tone(c.get_additional_half_tone());
            }
            let t = jbonsai::mlpg_adjust::MlpgAdjust::new(c.get_gv_weight(s), c.get_msd_threshold(s), ms).create(&d3);
            equal &= digest2(&t) == digest2(&hooked[s]);
        }
        evs.push(json!({"ev": "isolated", "what": "wiring", "spectrum_equal": equal, "lpf_equal": equal}));
    }
    // thresholds on streams that have no voicing decision (spectrum, low-pass) are inert over the whole range [0, 1]
    {
        let mut e2 = engine0.clone();
        let b0 = trajectories(&e2, &lines)?;
        for s in [0usize, 2] {
            if s < e2.voices.global_metadata().num_streams {
                e2.condition.set_msd_threshold(s, *rng.pick(&[1.0, 1.0, 0.0, 0.5, 0.999]));
            }
        }
        let b1 = trajectories(&e2, &lines)?;
        evs.push(json!({"ev": "isolated", "what": "thr[0],thr[2]", "spectrum_equal": digest2(&b1.0) == digest2(&b0.0) && digest2(&b1.1) == digest2(&b0.1),
                        "lpf_equal": digest2(&b1.2) == digest2(&b0.2)}));
    }
    // a GV weight change on the log-F0 stream leaves the other streams alone as well
    engine.condition.set_gv_weight(1, rng.uniform(0.0, 2.0));
    let (sp, _, lpf) = trajectories(&engine, &lines)?;
    evs.push(json!({"ev": "isolated", "what": "gvw[1]", "spectrum_equal": digest2(&sp) == digest2(&base.0), "lpf_equal": digest2(&lpf) == digest2(&base.2)}));
    Ok(())
}

fn halftone(engine0: &Engine, rng: &mut Rng, corpus: &Corpus, evs: &mut Vec<Value>) -> Result<(), String> {
    let nl = 2 + rng.below(8);
    let mut lines = corpus.utterance(rng, nl);
    let mut engine = engine0.clone();
    random_condition(&mut engine, rng, false);
    // thresholds below the voicing weight of the file's "never voiced" filler PDFs (mean 0, variance 1, weight 0.05 in the bundled voice)
    // make those states voiced: their log-F0 mean 0 lies below the 20 Hz limit.  Such leaves are rare (two in the bundled voice), so a
    // label that selects one is put into the utterance.
    if rng.chance(0.3) {
        engine.condition.set_msd_threshold(1, *rng.pick(&[0.0, 0.02, 0.04, 0.049]));
        let with_filler = filler_lines(&engine, corpus);
        if !with_filler.is_empty() {
            let at = rng.below(lines.len() + 1);
            lines.insert(at, (*rng.pick(&with_filler)).clone());
        }
    }
    let labels = parse_all(&lines);
    engine.condition.set_additional_half_tone(0.0);
    let (sp0, lf00, lpf0) = trajectories(&engine, &lines)?;
    let d0 = durations(&engine, &labels);
    // h = 0 is the identity: the log-F0 trajectory is the one the public pipeline gives when the half-tone step is left out altogether
    {
        let m = Models::new(&labels, &engine.voices, engine.condition.get_interporation_weight());
        let direct = jbonsai::mlpg_adjust::MlpgAdjust::new(engine.condition.get_gv_weight(1), engine.condition.get_msd_threshold(1), m.model_stream(1)).create(&d0);
        evs.push(json!({"ev": "halftone", "h8": 0, "clamped": true, "diffs": [], "len_equal": true, "dur_equal": true, "nodata_equal": true,
                        "spectrum_equal": true, "lpf_equal": true, "lf0_equal": digest2(&direct) == digest2(&lf00), "direct": true}));
    }
    let w0 = engine.synthesize(&lines[..]).map_err(|e| e.to_string())?;
    let m = Models::new(&labels, &engine.voices, engine.condition.get_interporation_weight());
    let means: Vec<f64> = m.model_stream(1).stream.iter().map(|(p, _)| p[0].0).collect();
    for _ in 0..3 {
        let h8 = match rng.below(5) {
            0 => 0,
            1 => *rng.pick(&[-192i64, 192]),
            _ => rng.range(-192, 192),
        };
        let h = h8 as f64 / 8.0;
        engine.condition.set_additional_half_tone(h);
        let (sp, lf0, lpf) = trajectories(&engine, &lines)?;
        let d = durations(&engine, &labels);
        let w = engine.synthesize(&lines[..]).map_err(|e| e.to_string())?;
        // would any state mean reach the 20 Hz .. 20 kHz limit?  (margin 1e-9)
        let clamped = means.iter().any(|mu| { let x = mu + h * HALF_TONE; x <= MIN_LF0 + 1e-9 || x >= MAX_LF0 - 1e-9 || *mu <= MIN_LF0 + 1e-9 || *mu >= MAX_LF0 - 1e-9 });
        let nodata_equal = lf0.len() == lf00.len() && lf0.iter().zip(&lf00).all(|(a, b)| (a[0] == NODATA) == (b[0] == NODATA));
        let diffs: Vec<i64> = lf0.iter().zip(&lf00).filter(|(a, b)| a[0] != NODATA && b[0] != NODATA).map(|(a, b)| ((a[0] - b[0]) * 1e9).round() as i64).collect();
        evs.push(json!({"ev": "halftone", "h8": h8, "clamped": clamped, "diffs": diffs, "len_equal": w.len() == w0.len(), "dur_equal": d == d0,
                        "nodata_equal": nodata_equal, "spectrum_equal": digest2(&sp) == digest2(&sp0), "lpf_equal": digest2(&lpf) == digest2(&lpf0),
                        "lf0_equal": digest2(&lf0) == digest2(&lf00)}));
    }
    Ok(())
}

fn gain(engine0: &Engine, rng: &mut Rng, corpus: &Corpus, evs: &mut Vec<Value>) -> Result<(), String> {
    let nl = 1 + rng.below(6);
    let lines = corpus.utterance(rng, nl);
    let mut engine = engine0.clone();
    random_condition(&mut engine, rng, true);
    engine.condition.set_volume(0.0);
    let w0 = engine.synthesize(&lines[..]).map_err(|e| e.to_string())?;
    let t0 = trajectories(&engine, &lines)?;
    // a pure gain of up to 60 dB must stay representable: skip runaway waveforms (outside the stable range) and silence
    if w0.iter().any(|x| !x.is_finite() || x.abs() > 1e200) || w0.iter().all(|x| x.abs() < 1e-200) {
        return Ok(());
    }
    let (imax, _) = w0.iter().enumerate().fold((0, 0.0f64), |(i, m), (j, x)| if x.abs() > m { (j, x.abs()) } else { (i, m) });
    for _ in 0..3 {
        let v_milli: i64 = match rng.below(4) {
            0 => rng.range(-60, 60) * 1000,
            1 => *rng.pick(&[-60000i64, 60000, 0, 250, -250]),
            _ => rng.range(-60000, 60000),
        };
        let v = v_milli as f64 / 1000.0;
        engine.condition.set_volume(v);
        let getv = engine.condition.get_volume();
        let w = engine.synthesize(&lines[..]).map_err(|e| e.to_string())?;
        let t = trajectories(&engine, &lines)?;
        if w.len() != w0.len() {
            evs.push(json!({"ev": "gain", "v_milli": v_milli, "gain_udb": 0, "resid_ppb": 2_000_000_000i64, "getv_nano": 0, "len_equal": false, "traj_equal": false,
                            "gain_err_e13": 2_000_000_000i64, "resid_e13": 2_000_000_000i64}));
            continue;
        }
        let ratio = w[imax] / w0[imax];
        let scale = w0[imax].abs() * ratio.abs();
        let resid = w.iter().zip(&w0).map(|(a, b)| (a - ratio * b).abs()).fold(0.0f64, f64::max) / scale;
        let q = |x: f64| if x.is_finite() { x.round().clamp(-2.0e9, 2.0e9) as i64 } else { 2_000_000_000 };
        evs.push(json!({"ev": "gain", "v_milli": v_milli, "gain_udb": q(20.0 * ratio.abs().log10() * 1e6 * ratio.signum()), "resid_ppb": q(resid * 1e9),
                        "getv_nano": q((getv - v) * 1e9), "len_equal": true,
                        // "to rounding accuracy": the factor against 10^(v/20) and the sample-wise residual, in units of 1e-13
                        "gain_err_e13": q((ratio / 10f64.powf(v / 20.0) - 1.0).abs() * 1e13), "resid_e13": q(resid * 1e13),
                        "traj_equal": digest2(&t.0) == digest2(&t0.0) && digest2(&t.1) == digest2(&t0.1) && digest2(&t.2) == digest2(&t0.2)}));
    }
    Ok(())
}

/// variance of coefficient k over the GV-eligible frames
fn eligible_var(traj: &[Vec<f64>], k: usize, elig: &[bool]) -> (usize, f64) {
    let xs: Vec<f64> = traj.iter().zip(elig).filter(|(_, e)| **e).map(|(f, _)| f[k]).collect();
    let n = xs.len();
    if n == 0 {
        return (0, 0.0);
    }
    let mean = xs.iter().sum::<f64>() / n as f64;
    (n, xs.iter().map(|x| (x - mean) * (x - mean)).sum::<f64>() / n as f64)
}

fn gv(engine0: &Engine, rng: &mut Rng, corpus: &Corpus, evs: &mut Vec<Value>) -> Result<(), String> {
    let nl = 10 + rng.below(51);
    let lines = corpus.utterance(rng, nl);
    let labels = parse_all(&lines);
    let mut engine = engine0.clone();
    let ns = engine.voices.global_metadata().num_streams;
    let nstate = engine.voices.global_metadata().num_states;
    let dur = durations(&engine, &labels);
    let iw = engine.condition.get_interporation_weight().clone();
    let voices = engine.voices.clone();
    let m = Models::new(&labels, &voices, &iw);
    for s in 0..ns {
        let ms = m.model_stream(s);
        let Some((gvp, switch)) = ms.gv.clone() else {
            // a stream without GV is unaffected by the GV weight
            let a = trajectories(&engine, &lines)?;
            engine.condition.set_gv_weight(s, rng.uniform(0.0, 2.0));
            let b = trajectories(&engine, &lines)?;
            engine.condition.set_gv_weight(s, 1.0);
            let (x, y) = match s { 0 => (a.0, b.0), 1 => (a.1, b.1), _ => (a.2, b.2) };
            evs.push(json!({"ev": "gvoff", "stream": s, "unaffected": digest2(&x) == digest2(&y)}));
            continue;
        };
        let _ = nstate;
        // eligible = voiced and switch on; voiced read from the trajectory (NODATA) for MSD streams
        let base = trajectories(&engine, &lines)?;
        let tr0 = match s { 0 => &base.0, 1 => &base.1, _ => &base.2 };
        let mut per_frame_switch = Vec::new();
        for (st, d) in dur.iter().enumerate() {
            for _ in 0..*d {
                per_frame_switch.push(switch[st]);
            }
        }
        let elig: Vec<bool> = tr0.iter().zip(&per_frame_switch).map(|(f, sw)| *sw && f[0] != NODATA).collect();
        let k = rng.below(ms.vector_length);
        let gv_mean = gvp[k].0;
        if !(gv_mean > 0.0) {
            continue;
        }
        for (i, wq) in [1i64, 2, 4, 6, 8].iter().enumerate() {
            engine.condition.set_gv_weight(s, *wq as f64 / 4.0);
            let t = trajectories(&engine, &lines)?;
            let tr = match s { 0 => &t.0, 1 => &t.1, _ => &t.2 };
            let (n, var) = eligible_var(tr, k, &elig);
            let r = var / gv_mean * 1e6;
            evs.push(json!({"ev": "gv", "first": i == 0, "stream": s, "coef": k, "wq": wq, "eligible": n,
                            "ratio_ppm": if r.is_finite() { r.round().clamp(-1.0, 2.0e9) as i64 } else { -1 }}));
        }
        engine.condition.set_gv_weight(s, 1.0);
    }
    Ok(())
}

/// A stream "without GV" is one whose voice says USE_GV = 0 - even if GV PDFs happen to be present in the Voice value
/// (built here through the public fields): its trajectory must not depend on the GV weight.
fn gv_flag_off(path: &str, corpus: &Corpus, evs: &mut Vec<Value>) -> Result<(), String> {
    use jbonsai::model::{load_htsvoice_file, VoiceSet};
    let mut voice = load_htsvoice_file(&path.to_string()).map_err(|e| e.to_string())?;
    let Some(s) = (0..voice.stream_models.len()).find(|s| voice.stream_models[*s].gv_model.is_some()) else { return Ok(()) };
    voice.stream_models[s].metadata.use_gv = false;
    let vs = VoiceSet::new(vec![std::sync::Arc::new(voice)]).map_err(|e| e.to_string())?;
    let mut cond = jbonsai::Condition::default();
    cond.load_model(&vs).map_err(|e| e.to_string())?;
    let mut engine = Engine::new(vs, cond);
    let lines: Vec<String> = corpus.lines[20..26].to_vec();
    let a = trajectories(&engine, &lines)?;
    engine.condition.set_gv_weight(s, 1.7);
    let b = trajectories(&engine, &lines)?;
    let (x, y) = match s { 0 => (a.0, b.0), 1 => (a.1, b.1), _ => (a.2, b.2) };
    evs.push(json!({"ev": "gvoff", "stream": s, "flag_only": true, "unaffected": digest2(&x) == digest2(&y)}));
    // ... and the same through the file: a copy of the voice whose header says USE_GV[stream]:0 while the GV tree / PDF positions
    // stay in place (a header-only edit of the same length).  The loaded voice must say "no GV" for that stream, its trajectory
    // must not move with the GV weight and must be the plain maximum-likelihood solution.
    let raw = std::fs::read(path).map_err(|e| e.to_string())?;
    for name in ["LF0", "MCP"] {
        let pat = format!("USE_GV[{}]:1", name);
        let Some(at) = raw.windows(pat.len()).position(|w| w == pat.as_bytes()) else { continue };
        let mut edited = raw.clone();
        edited[at + pat.len() - 1] = b'0';
        static N: std::sync::atomic::AtomicUsize = std::sync::atomic::AtomicUsize::new(0);
        let tmp = std::env::temp_dir().join(format!("jbv_nogv_{}_{}_{}.htsvoice", std::process::id(), name,
                                                    N.fetch_add(1, std::sync::atomic::Ordering::SeqCst)));
        std::fs::write(&tmp, &edited).map_err(|e| e.to_string())?;
        let loaded = Engine::load(&[tmp.to_string_lossy().to_string()]);
        std::fs::remove_file(&tmp).ok();
        let mut engine = loaded.map_err(|e| e.to_string())?;
        let types = (0..engine.voices.global_metadata().num_streams).map(|i| engine.voices.stream_metadata(i).use_gv).collect::<Vec<_>>();
        let s = if name == "MCP" { 0 } else { 1 };
        let a = trajectories(&engine, &lines)?;
        engine.condition.set_gv_weight(s, 0.3);
        let b = trajectories(&engine, &lines)?;
        let labels = parse_all(&lines);
        let dur = durations(&engine, &labels);
        let m = Models::new(&labels, &engine.voices, engine.condition.get_interporation_weight());
        let mut ms = m.model_stream(s);
        let had_gv = ms.gv.is_some();
        ms.gv = None;
        let ml = jbonsai::mlpg_adjust::MlpgAdjust::new(engine.condition.get_gv_weight(s), engine.condition.get_msd_threshold(s), ms).create(&dur);
        let (x, y) = match s { 0 => (a.0, b.0), _ => (a.1, b.1) };
        evs.push(json!({"ev": "gvoff", "stream": s, "header_flag": true,
                        "unaffected": !types[s] && !had_gv && digest2(&x) == digest2(&y) && digest2(&y) == digest2(&ml)}));
    }
    Ok(())
}

/// silence-only utterance: no frame is GV-eligible, the trajectory must be the plain ML solution
fn gv_none(engine0: &Engine, corpus: &Corpus, evs: &mut Vec<Value>) -> Result<(), String> {
    let sil: Vec<String> = corpus.lines.iter().filter(|l| l.contains("-sil+") || l.contains("-pau+")).take(3).cloned().collect();
    let mut engine = engine0.clone();
    let a = trajectories(&engine, &sil)?;
    for s in 0..engine.voices.global_metadata().num_streams {
        engine.condition.set_gv_weight(s, 0.37);
    }
    let b = trajectories(&engine, &sil)?;
    // the plain maximum-likelihood solution itself, through the public MlpgAdjust with the GV parameters taken away
    let labels = parse_all(&sil);
    let dur = durations(&engine, &labels);
    let m = Models::new(&labels, &engine.voices, engine.condition.get_interporation_weight());
    let mut ml_equal = true;
    for (s, got) in [&b.0, &b.1, &b.2].iter().enumerate().take(engine.voices.global_metadata().num_streams) {
        let mut ms = m.model_stream(s);
        ms.gv = None;
        let ml = jbonsai::mlpg_adjust::MlpgAdjust::new(engine.condition.get_gv_weight(s), engine.condition.get_msd_threshold(s), ms).create(&dur);
        ml_equal &= digest2(&ml) == digest2(got) && ml.iter().all(|f| f.iter().all(|x| x.is_finite()));
    }
    evs.push(json!({"ev": "gvnone", "equal_to_ml": ml_equal && digest2(&a.0) == digest2(&b.0) && digest2(&a.1) == digest2(&b.1) && digest2(&a.2) == digest2(&b.2)}));
    Ok(())
}

/// voicing of a voice SET: the decisive weight is the interpolated one (per-voice weights are public via get_parameter)
fn mix_voicing(paths: &[String], rng: &mut Rng, corpus: &Corpus, evs: &mut Vec<Value>) -> Result<(), String> {
    let nv = 2 + rng.below(paths.len().min(3) - 1);
    let sel: Vec<String> = (0..nv).map(|i| paths[(i + rng.below(paths.len())) % paths.len()].clone()).collect();
    let mut engine = Engine::load(&sel).map_err(|e| e.to_string())?;
    // weights in 64ths, sometimes left at the default average (only if it is a multiple of 1/64)
    let mut k = vec![0i64; nv];
    if nv == 2 && rng.chance(0.3) {
        k = vec![32, 32];
    } else {
        let mut rest = 64;
        for v in 0..nv - 1 {
            k[v] = rng.range(0, rest);
            rest -= k[v];
        }
        k[nv - 1] = rest;
        let w: Vec<f64> = k.iter().map(|x| *x as f64 / 64.0).collect();
        engine.condition.get_interporation_weight_mut().set_parameter(1, &w).map_err(|e| e.to_string())?;
    }
    let thr = (rng.below(1025) as f32) / 1024.0;
    engine.condition.set_msd_threshold(1, thr as f64);
    let nl = 2 + rng.below(6);
    let lines = corpus.utterance(rng, nl);
    let labels = parse_all(&lines);
    let nstate = engine.voices.global_metadata().num_states;
    let dur = durations(&engine, &labels);
    let mut msdq: Vec<Vec<i64>> = Vec::new();
    for label in &labels {
        for st in 0..nstate {
            msdq.push(engine.voices.iter().map(|v| {
                let p = v.stream_models[1].stream_model.get_parameter(st + 2, label);
                (p.msd.unwrap_or(0.0) * 1048576.0).round() as i64
            }).collect());
        }
    }
    let (_, lf0, _) = trajectories(&engine, &lines)?;
    let nodata: Vec<bool> = lf0.iter().map(|f| f[0] == NODATA).collect();
    evs.push(json!({"ev": "mixvoicing", "k": k, "msdq": msdq, "thrq": ((thr as f64) * 1048576.0).round() as i64, "dur": dur, "nodata": nodata}));
    Ok(())
}

pub fn record(mode: &str, seed: u64, n: usize, out_path: &str, paths: &[String]) {
    let corpus = Corpus::load();
    let engines: Vec<Engine> = paths.iter().map(|p| Engine::load(&[p]).unwrap_or_else(|e| die(&format!("{}: {}", p, e)))).collect();
    let its: Vec<usize> = (0..n).collect();
    let all = par_map(&its, |_, it| {
        let mut rng = Rng::new(seed ^ 0x1a35 ^ ((*it as u64) << 24));
        let engine = &engines[*it % engines.len()];
        let mut evs = Vec::new();
        let r = guarded(|| match mode {
            "voicing" => {
                if paths.len() >= 2 {
                    mix_voicing(paths, &mut rng, &corpus, &mut evs)?;
                }
                voicing(engine, &mut rng, &corpus, &mut evs)
            }
            "halftone" => halftone(engine, &mut rng, &corpus, &mut evs),
            "gain" => gain(engine, &mut rng, &corpus, &mut evs),
            "gv" => {
                if *it < engines.len() {
                    gv_none(engine, &corpus, &mut evs)?;
                    gv_flag_off(&paths[*it], &corpus, &mut evs)?;
                }
                gv(engine, &mut rng, &corpus, &mut evs)
            }
            m => die(&format!("unknown mode {}", m)),
        });
        match r {
            Ok(Ok(())) => {}
            Ok(Err(e)) => evs.push(json!({"ev": "error", "msg": e})),
            Err(p) => evs.push(json!({"ev": "panic", "in": mode, "msg": p})),
        }
        evs
    });
    let mut out = Out::create(out_path);
    for evs in all {
        for e in evs {
            out.line(&e);
        }
    }
    out.finish();
}
