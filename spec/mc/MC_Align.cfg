CONSTANTS D = 4  NL = {0, 1, 2, 3}  NState = {1, 2}  ParamSets = {1, 2, 3}
  Ends <- EndsFull  Starts <- StartsFull
SPECIFICATION Spec
INVARIANTS AlignLaw Covers NoVanish FillLaw
CHECK_DEADLOCK FALSE
