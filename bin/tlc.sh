#!/bin/sh
# usage: tlc.sh <workers> <metadir> <cfg> <tla> [extra TLC args...]
# Runs TLC with a deep evaluation stack (label strings are matched recursively) and the
# depth-first state queue (trace specs are linear; BFS order is irrelevant for them).
W="$1"; META="$2"; CFG="$3"; TLA="$4"; shift 4
XMX="${VERIF_TLC_XMX:-6g}"
QUEUE="${VERIF_TLC_QUEUE:--Dtlc2.tool.queue.IStateQueue=StateDeque}"
GC="-XX:+UseParallelGC"; [ "$W" -le 2 ] && GC="-XX:+UseSerialGC"
HERE="$(cd "$(dirname "$0")/.." && pwd)"
exec java -DTLA-Library="$HERE/spec:$HERE/spec/data:$HERE/spec/mc:$HERE/spec/gen:$HERE/spec/trace" -Xss1g -Xmx"$XMX" $GC $QUEUE \
  -cp /opt/veriftools/tla/tla2tools.jar:/opt/veriftools/tla/CommunityModules-deps.jar \
  tlc2.TLC -workers "$W" -metadir "$META" -cleanup -noGenerateSpecTE -config "$CFG" "$@" "$TLA"
