CONSTANTS PLen = 5  TLen = 6
SPECIFICATION Spec
INVARIANT Equivalent
CHECK_DEADLOCK FALSE
