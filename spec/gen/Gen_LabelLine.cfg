CONSTANTS MaxLines = 2  TimeIdx = {1, 4, 5, 10}  LabelIdx = {1, 4}  Forms = {"slice", "vec", "array"}
SPECIFICATION Spec
INVARIANTS Emit Sane
CHECK_DEADLOCK FALSE
