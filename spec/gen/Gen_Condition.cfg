CONSTANTS
  FLits <- GF
  ULits <- GU
  VLits <- GV
  NStream = 3
  HdrRate = "48000"  HdrFperiod = "240"  HdrAlpha = "0.55"
  L = 1
SPECIFICATION GSpec
INVARIANTS Emit RangeLaw
CHECK_DEADLOCK FALSE
