CONSTANTS D = 4  N = {1, 2, 3}  Means = {1, 2, 6, 7, 10}  Varis = {1, 4, 9}  Mode = "create"
  NL = {0} NState = {1} ParamSets = {1} Ends <- EndsSmall Starts <- StartsSmall
SPECIFICATION Spec
INVARIANT Emit
CHECK_DEADLOCK FALSE
