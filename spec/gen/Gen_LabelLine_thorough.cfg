CONSTANTS MaxLines = 2  TimeIdx = {1, 2, 4, 5, 6, 7, 10, 11, 13}  LabelIdx = {1, 2, 4, 6, 8}  Forms = {"slice", "vec", "array"}
SPECIFICATION Spec
INVARIANTS Emit Sane
CHECK_DEADLOCK FALSE
