CONSTANTS Q = 2  FP = 4  Periods = {0, 5, 6, 9}  MaxFrames = 5
SPECIFICATION Spec
INVARIANTS Spacing CountLaw Glide Restart PeriodPositive
CHECK_DEADLOCK FALSE
