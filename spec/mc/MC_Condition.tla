---- MODULE MC_Condition ----
EXTENDS Condition
MCF == <<"-1", "0", "1e-6", "0.5", "1">>
MCU == <<"0", "1", "240">>
MCV == <<"0">>
\* commutation of setters on distinct fields, checked as an invariant over reachable states:
\* applying two updates in either order from the current state gives the same condition
A1(cc, x) == [cc EXCEPT !.speed = Max2(x, F("1e-6"))]
A2(cc, x) == [cc EXCEPT !.alpha = ClampI(x, F("0"), F("1"))]
A3(cc, s, x) == [cc EXCEPT !.thr[s] = ClampI(x, F("0"), F("1"))]
A4(cc, s, x) == [cc EXCEPT !.gvw[s] = Max2(x, F("0"))]
Commute == \A x, y \in FI : /\ A1(A2(c, y), x) = A2(A1(c, x), y)
                            /\ \A s, t \in Streams : A3(A4(c, t, y), s, x) = A4(A3(c, s, x), t, y)
                            /\ \A s, t \in Streams : s # t => A3(A3(c, t, y), s, x) = A3(A3(c, s, x), t, y)
\* setters are idempotent projections: setting the stored value again changes nothing
Idempotent == /\ A1(c, c.speed) = c /\ A2(c, c.alpha) = c
              /\ \A s \in Streams : A3(c, s, c.thr[s]) = c /\ A4(c, s, c.gvw[s]) = c
====
