------------------------------ MODULE Excitation ------------------------------
(* The excitation generator's pitch machine in exact arithmetic (C07, DESIGN 3.7; jbonsai::vocoder::excitation).

   Time is counted in units of 1/(Q x fperiod) samples, so that periods P/Q samples and their per-sample
   increments during a glide are integers:  one sample = U = Q x fperiod units, period P/Q = P x fperiod units.
   State s = [pcur, cnt, inc]:  current period (0 = unvoiced), pitch counter, per-sample period increment.
     Start(s, p)   beginning of a frame with target period p (0 = unvoiced): glide if both voiced, else restart
     Sample(s)     one output sample: unvoiced -> noise; voiced -> cnt += U; a pulse of height sqrt(pcur) fires
                   iff cnt >= pcur (then cnt -= pcur); pcur += inc.  The implementation computes in f64, so at an
                   exact tie cnt = pcur either outcome is allowed (set-valued), as everywhere in this suite.
     End(s, p)     end of the frame: pcur = p *)
EXTENDS Integers, Sequences, FiniteSets

Zero == [pcur |-> 0, cnt |-> 0, inc |-> 0]
Start(s, p, fperiod) == IF s.pcur # 0 /\ p # 0 THEN [s EXCEPT !.inc = (p - s.pcur) \div fperiod]   \* exact: multiples of fperiod
                        ELSE [pcur |-> p, cnt |-> p, inc |-> 0]
\* set of [s, k, h2]: next state, observation kind ("n" noise, "p" pulse, "z" zero), squared pulse height (= period)
Sample(s, U) ==
  IF s.pcur = 0 THEN { [s |-> s, k |-> "n", h2 |-> 0] }
  ELSE LET c == s.cnt + U
           fire == [s |-> [pcur |-> s.pcur + s.inc, cnt |-> c - s.pcur, inc |-> s.inc], k |-> "p", h2 |-> s.pcur]
           idle == [s |-> [pcur |-> s.pcur + s.inc, cnt |-> c, inc |-> s.inc], k |-> "z", h2 |-> 0]
       IN IF c > s.pcur THEN {fire} ELSE IF c < s.pcur THEN {idle} ELSE {fire, idle}
End(s, p) == [s EXCEPT !.pcur = p]
=============================================================================
