//! C08 / C09: duration estimation.  Replays Gen_Duration cases against DurationEstimator / Labels.
use crate::util::*;
use jbonsai::duration::DurationEstimator;
use jbonsai::label::Labels;
use jbonsai::model::MeanVari;
use serde_json::{json, Value};

const LABEL: &str = "sil^b-o+N=s/A:-3+1+4/B:xx-xx_xx/C:02_xx+xx/D:xx+xx_xx/E:xx_xx!xx_xx-xx/F:4_4#0_xx@1_1|1_4/G:xx_xx%xx_xx_xx/H:xx_xx/I:1-4@1+1&1-1|1+4/J:xx_xx/K:1+1-4";

fn params(case: &Value) -> Vec<MeanVari> {
    let d = vi(&case["D"]) as f64;
    va(&case["m"]).iter().zip(va(&case["v"])).map(|(m, v)| MeanVari(vi(m) as f64 / d, vi(v) as f64 / d)).collect()
}
fn as_vec(v: &Value) -> Vec<usize> {
    va(v).iter().map(vu).collect()
}
fn in_set(got: &[usize], set: &Value) -> bool {
    va(set).iter().any(|s| as_vec(s) == got)
}

fn replay_create(case: &Value) -> Option<(String, String)> {
    let p = params(case);
    let n = p.len();
    let speed = vi(&case["p"]) as f64 / vi(&case["q"]) as f64;
    let est = DurationEstimator::new(p, n.max(1));
    match guarded(|| est.create(speed)) {
        Err(m) => Some((format!("create:panic:{}", m), m)),
        Ok(d) => {
            if in_set(&d, &case["set"]) {
                None
            } else {
                let kind = if d.len() != n { "length" } else if d.iter().any(|x| *x == 0) { "zero" } else { "value" };
                Some((format!("create:{}", kind), format!("create({}) = {:?}, specification allows {}", speed, d, case["set"])))
            }
        }
    }
}

/// quarter-frame time (negative = unknown) to the f64 the API takes; unknowns are spread over several negative values
fn t_of(q: i64, e: f64, salt: usize) -> f64 {
    if q < 0 { [-1.0, -0.25, -1e9, -7.5][salt % 4] } else { q as f64 / e }
}

fn replay_align(case: &Value) -> Option<(String, String)> {
    let p = params(case);
    let nstate = vu(&case["nstate"]);
    let e = vi(&case["E"]) as f64;
    let times: Vec<(f64, f64)> = va(&case["times"]).iter().enumerate().map(|(i, t)| (t_of(vi(&t[0]), e, i), t_of(vi(&t[1]), e, i + 1))).collect();
    let labels: Vec<jlabel::Label> = (0..times.len()).map(|_| LABEL.parse().unwrap()).collect();
    // Labels::new refuses label / time lists of different lengths (an error, not a panic)
    let mut longer = times.clone();
    longer.push((0.0, 1.0));
    match guarded(|| Labels::new(labels.clone(), Some(longer)).is_err()) {
        Ok(true) => {}
        Ok(false) => return Some(("labels:length-mismatch-accepted".into(), "Labels::new accepted times of a different length".into())),
        Err(m) => return Some((format!("labels:panic:{}", m), m)),
    }
    let l = match guarded(|| Labels::new(labels, Some(times.clone()))) {
        Err(m) => return Some((format!("labels:panic:{}", m), m)),
        Ok(Err(e)) => return Some(("labels:error".into(), format!("Labels::new rejected equal-length inputs: {}", e))),
        Ok(Ok(l)) => l,
    };
    // FillTimes
    let filled = va(&case["filled"]);
    if l.times().len() != filled.len() {
        return Some(("labels:len".into(), format!("times() has {} entries expected {}", l.times().len(), filled.len())));
    }
    for (i, (got, exp)) in l.times().iter().zip(filled).enumerate() {
        let ex = (if vi(&exp[0]) < 0 { -1.0 } else { vi(&exp[0]) as f64 / e }, if vi(&exp[1]) < 0 { -1.0 } else { vi(&exp[1]) as f64 / e });
        if *got != ex {
            return Some(("labels:fill".into(), format!("times()[{}] = {:?} expected {:?} (input {:?})", i, got, ex, times)));
        }
    }
    let est = DurationEstimator::new(p.clone(), nstate);
    let d = match guarded(|| est.create_with_alignment(l.times())) {
        Err(m) => return Some((format!("align:panic:{}", m), m)),
        Ok(d) => d,
    };
    for g in va(&case["groups"]) {
        let (lo, hi) = (vu(&g["lo"]), vu(&g["hi"]));
        let known = vb(&g["known"]);
        if d.len() < hi {
            let key = if known { "align:missing-states" } else { "align:trailing-unknown-end" };
            return Some((key.into(), format!("durations for states {}..{} are missing: result has {} of {} states ({:?}), times {:?}", lo, hi, d.len(), p.len(), d, l.times())));
        }
        if !in_set(&d[lo - 1..hi], &g["set"]) {
            let key = if known { "align:group" } else { "align:trailing-value" };
            return Some((key.into(), format!("states {}..{} got {:?}, specification allows {} (times {:?})", lo, hi, &d[lo - 1..hi], g["set"], l.times())));
        }
    }
    if d.len() != p.len() {
        return Some(("align:length".into(), format!("result has {} durations for {} states", d.len(), p.len())));
    }
    None
}

pub fn replay(cases_path: &str, out_path: &str) {
    let cases = read_jsonl(cases_path);
    let results = par_map(&cases, |_, case| match vs(&case["kind"]) {
        "create" => replay_create(case),
        "align" => replay_align(case),
        k => die(&format!("unknown duration case kind {}", k)),
    });
    let mut out = Out::create(out_path);
    let mut failed = 0;
    for (i, r) in results.into_iter().enumerate() {
        if let Some((key, msg)) = r {
            failed += 1;
            out.line(&json!({"case": i, "key": key, "msg": msg, "input": cases[i]}));
        }
    }
    out.line(&json!({"summary": {"cases": cases.len(), "failed": failed}}));
    out.finish();
}

// ------------------------------------------------------------------ recorders (I->S)
use crate::eng::*;
use jbonsai::model::Models;

fn mq_of(p: &[MeanVari]) -> Vec<i64> {
    p.iter().map(|mv| (mv.0 * 1e6).round() as i64).collect()
}

fn random_params(rng: &mut Rng, nmax: usize) -> Vec<MeanVari> {
    let n = 1 + rng.below(nmax);
    let style = rng.below(4);
    (0..n)
        .map(|i| match style {
            0 => MeanVari(rng.uniform(0.2, 60.0), 10f64.powf(rng.uniform(-3.0, 2.6))),
            1 => MeanVari((1 + rng.below(8)) as f64 * 0.5, [0.25, 1.0, 4.0][rng.below(3)]), // many exact ties
            2 => MeanVari(3.0, 2.0),                                                       // identical states
            _ => if i % 2 == 0 { MeanVari(rng.uniform(0.2, 3.0), rng.uniform(0.001, 0.1)) } else { MeanVari(rng.uniform(20.0, 60.0), rng.uniform(100.0, 400.0)) },
        })
        .collect()
}

/// the time nearest below/at `t` that lies exactly on a half-frame boundary (n + 1/2 frames), if one exists near t
fn snap_tie(t: u64, rate: usize, fperiod: usize) -> Option<u64> {
    let den = 2 * rate as u128;
    let n = t as u128 * rate as u128 / (fperiod as u128 * 10_000_000u128);
    for k in 0..4u128 {
        let num = (2 * (n + k) + 1) * fperiod as u128 * 10_000_000u128;
        if num % den == 0 {
            return Some((num / den) as u64);
        }
    }
    None
}

/// exact candidates for round(t * rate / (fperiod * 1e7)), t in 100 ns units
fn frame_cands(t: u64, rate: usize, fperiod: usize) -> Vec<i64> {
    let num = t as u128 * rate as u128;
    let den = fperiod as u128 * 10_000_000u128;
    let fl = num / den;
    let rem = num % den;
    let two = 2 * rem;
    let dist = if two > den { two - den } else { den - two }; // |2 rem - den| = 2 den |frac - 1/2|
    if dist == 0 {
        // an exact half-frame boundary: round() is half away from zero (time * rate and fperiod * 1e7 are exact in f64 and
        // their quotient is correctly rounded, so an implementation that multiplies first gets this right; D12)
        vec![fl as i64 + 1]
    } else if dist * 1_000_000_000u128 <= 2 * den {
        vec![fl as i64, fl as i64 + 1]
    } else if two > den {
        vec![fl as i64 + 1]
    } else {
        vec![fl as i64]
    }
}

/// exact candidates for round(f1 / s), s given as an f64 (its exact binary value is used; both neighbours within 1e-9 of a tie)
fn quotient_cands(f1: u64, s: f64) -> Vec<i64> {
    let bits = s.to_bits();
    let exp = ((bits >> 52) & 0x7ff) as i64;
    let mant = if exp == 0 { bits & ((1u64 << 52) - 1) } else { (bits & ((1u64 << 52) - 1)) | (1u64 << 52) };
    let e = exp.max(1) - 1075; // s = mant * 2^e
    if mant == 0 || e > 0 || e < -100 {
        return vec![];
    }
    // f1 / s = f1 * 2^-e / mant
    let num = (f1 as u128) << ((-e) as u32).min(100);
    let den = mant as u128;
    let fl = num / den;
    let rem = num % den;
    let two = 2 * rem;
    let dist = if two > den { two - den } else { den - two };
    if dist * 1_000_000_000u128 <= 2 * den { vec![fl as i64, fl as i64 + 1] } else if two > den { vec![fl as i64 + 1] } else { vec![fl as i64] }
}

pub fn record(seed: u64, n: usize, mode: &str, out_path: &str) {
    let mut rng = Rng::new(seed ^ 0xd0);
    let mut out = Out::create(out_path);
    let corpus = Corpus::load();
    let base_engine = load_bundled();
    for it in 0..n {
        if mode == "speed" {
            let from_voice = it % 3 == 0;
            let (p, nstate) = if from_voice {
                let nl = 1 + rng.below(10);
                let lines = corpus.utterance(&mut rng, nl);
                let labels: Vec<jlabel::Label> = lines.iter().filter_map(|l| l.parse().ok()).collect();
                let m = Models::new(&labels, &base_engine.voices, base_engine.condition.get_interporation_weight());
                (m.duration(), m.nstate())
            } else {
                (random_params(&mut rng, if it % 7 == 1 { 200 } else { 24 }), 1)
            };
            if p.is_empty() {
                continue;
            }
            out.line(&json!({"ev": "pset", "n": p.len(), "mq": mq_of(&p), "source": if from_voice { "bundled" } else { "random" }}));
            let est = DurationEstimator::new(p.clone(), nstate);
            match guarded(|| est.create(1.0)) {
                Ok(d) => out.line(&json!({"ev": "base", "result": d})),
                Err(m) => {
                    out.line(&json!({"ev": "panic", "in": "create(1)", "msg": m}));
                    continue;
                }
            }
            let mut ks: Vec<i64> = (0..6).map(|_| (1024.0 * 10f64.powf(rng.uniform(-1.0, 1.69897))).round() as i64).collect();
            ks.push(1024);
            ks.push(*rng.pick(&[103i64, 256, 512, 2048, 4096, 51200]));
            ks.sort();
            // through the engine: set_speed(s) for decimal speeds (not f32- or dyadic-representable), synthesized length / fperiod
            if from_voice && it % 2 == 0 {
                let nl = 1 + rng.below(6);
                let lines = corpus.utterance(&mut rng, nl);
                let mut engine = base_engine.clone();
                // the number of frames does not depend on the rendering frame period or sampling rate (utterances "as in C01":
                // frame-period override 1..480, rate override 8k..96k); F1 comes from the duration model itself
                if rng.chance(0.5) {
                    engine.condition.set_fperiod(*rng.pick(&[60usize, 120, 200, 300, 480]));
                }
                if rng.chance(0.3) {
                    engine.condition.set_sampling_frequency(*rng.pick(&[16000usize, 22050, 44100, 96000]));
                }
                let labels: Vec<jlabel::Label> = lines.iter().filter_map(|l| l.parse().ok()).collect();
                // F1 label by label (each label's durations depend on that label alone)
                let f1: usize = labels
                    .iter()
                    .map(|lab| {
                        let m1 = Models::new(std::slice::from_ref(lab), &engine.voices, engine.condition.get_interporation_weight());
                        DurationEstimator::new(m1.duration(), m1.nstate()).create(1.0).iter().sum::<usize>()
                    })
                    .sum();
                let nst = lines.len() * engine.voices.global_metadata().num_states;
                for k in 0..5 {
                    // very slow rates stretch single (pause) states to many hundreds of frames; the first run is at speed 1
                    let milli = if k == 0 { 1000 } else { *rng.pick(&[400i64, 800, 1200, 1600, 300, 700, 1100, 2500, 3300, 100, 125, 150, 200, 9000]) };
                    let sp = milli as f64 / 1000.0;
                    engine.condition.set_speed(sp);
                    let exact = engine.condition.get_speed() == sp;
                    let frames = engine.synthesize(&lines[..]).map(|w| w.len() / engine.condition.get_fperiod()).unwrap_or(0);
                    out.line(&json!({"ev": "espeed", "milli": milli, "stored_exactly": exact, "f1": f1, "nstates": nst, "frames": frames,
                                     "cands": quotient_cands(f1 as u64, sp)}));
                }
            }
            for k in ks {
                let k = k.clamp(103, 51200);
                match guarded(|| est.create(k as f64 / 1024.0)) {
                    Ok(d) => out.line(&json!({"ev": "dur", "k": k, "result": d})),
                    Err(m) => out.line(&json!({"ev": "panic", "in": format!("create({}/1024)", k), "msg": m})),
                }
            }
        } else if mode == "units" {
            // C17: the unit of time stamps in label strings
            let rate = *rng.pick(&[8000usize, 16000, 22050, 44100, 48000, 96000]);
            let fp = *rng.pick(&[1usize, 80, 123, 240, 256, 441, 480]);
            let nl = 1 + rng.below(6);
            let labs = corpus.utterance(&mut rng, nl);
            let labs: Vec<String> = labs.into_iter().filter(|l| l.parse::<jlabel::Label>().is_ok()).collect();
            let mut lines = Vec::new();
            let mut cands = Vec::new();
            let mut t: u64 = rng.below(1_000_000) as u64;
            for lab in &labs {
                let mut d = rng.below(5_000_000) as u64;
                if rng.chance(0.3) {
                    // an end exactly on a half-frame boundary
                    if let Some(e) = snap_tie(t + d, rate, fp).filter(|e| *e >= t) {
                        d = e - t;
                    }
                }
                if rng.chance(0.15) {
                    lines.push(lab.clone());
                    cands.push(json!([]));
                    cands.push(json!([]));
                } else {
                    lines.push(format!("{} {} {}", t, t + d, lab));
                    cands.push(json!(frame_cands(t, rate, fp)));
                    cands.push(json!(frame_cands(t + d, rate, fp)));
                }
                t += d + rng.below(3) as u64 * 1000;
            }
            match guarded(|| Labels::load_from_strings(rate, fp, &lines).map(|l| l.times().to_vec())) {
                Ok(Ok(times)) => {
                    // no neighbour fill can occur here except for untimed lines next to timed ones; report raw rounded values,
                    // and mark entries that were filled from a neighbour (they are not "unknown" any more) by their candidates
                    let mut got: Vec<i64> = Vec::new();
                    for (a, b) in &times {
                        got.push(if *a < 0.0 { -1 } else { a.round() as i64 });
                        got.push(if *b < 0.0 { -1 } else { b.round() as i64 });
                    }
                    // neighbour fill: an unknown end inherits the next start and vice versa (C09); give those the neighbour's candidates
                    let mut c: Vec<Value> = cands.clone();
                    let n = labs.len();
                    for i in 0..n {
                        if i + 1 < n {
                            if va(&c[2 * i + 1]).is_empty() && !va(&c[2 * i + 2]).is_empty() { c[2 * i + 1] = c[2 * i + 2].clone(); }
                            else if !va(&c[2 * i + 1]).is_empty() && va(&c[2 * i + 2]).is_empty() { c[2 * i + 2] = c[2 * i + 1].clone(); }
                        }
                    }
                    out.line(&json!({"ev": "units", "rate": rate, "fperiod": fp, "cands": c, "got": got}));
                }
                Ok(Err(e)) => out.line(&json!({"ev": "error", "msg": e.to_string(), "lines": lines})),
                Err(p) => out.line(&json!({"ev": "panic", "in": "load_from_strings", "msg": p})),
            }
        } else {
            // alignment through the string form
            let mut engine = base_engine.clone();
            engine.condition.set_phoneme_alignment_flag(true);
            if rng.chance(0.4) {
                // with alignment the speaking rate has no say: time stamps are in 100 ns units whatever the speed
                engine.condition.set_speed(*rng.pick(&[0.5, 0.8, 1.25, 2.0, 3.0]));
            }
            if rng.chance(0.3) {
                engine.condition.set_fperiod(*rng.pick(&[80usize, 120, 240, 480, 256, 100]));
            }
            if rng.chance(0.3) {
                engine.condition.set_sampling_frequency(*rng.pick(&[16000usize, 22050, 44100, 48000]));
            }
            let (rate, fp) = (engine.condition.get_sampling_frequency(), engine.condition.get_fperiod());
            let nl = 1 + rng.below(7);
            let labs = corpus.utterance(&mut rng, nl);
            let labs: Vec<String> = labs.into_iter().filter(|l| l.parse::<jlabel::Label>().is_ok()).collect();
            if labs.is_empty() {
                continue;
            }
            // a timeline of phoneme boundaries in 100 ns units, then knock out / disturb entries
            let mut t: u64 = if rng.chance(0.5) { 0 } else { rng.below(3_000_000) as u64 };
            let mut lines = Vec::new();
            let mut tin = Vec::new();
            let only_final_end = rng.chance(0.12);
            for (li, lab) in labs.iter().enumerate() {
                let dur = match rng.below(6) {
                    0 => 0,
                    1 => rng.below(100_000) as u64,
                    _ => 200_000 + rng.below(4_000_000) as u64,
                };
                let mut dur = dur;
                if rng.chance(0.3) {
                    if let Some(e) = snap_tie(t + dur, rate, fp).filter(|e| *e >= t) {
                        dur = e - t; // the boundary lies exactly half way between two frames
                    }
                }
                let (mut s, mut e) = (Some(t), Some(t + dur));
                t += dur;
                if rng.chance(0.1) {
                    e = Some(e.unwrap().saturating_sub(rng.below(3_000_000) as u64)); // non-monotone
                }
                match rng.below(8) {
                    0 => s = None,
                    1 => e = None,
                    2 => {
                        s = None;
                        e = None;
                    }
                    _ => {}
                }
                if only_final_end {
                    s = None;
                    if li + 1 < labs.len() {
                        e = None;
                    } else if e.is_none() {
                        e = Some(t);
                    }
                }
                let both_missing = s.is_none() && e.is_none();
                if both_missing && rng.chance(0.5) {
                    lines.push(lab.clone());
                } else {
                    lines.push(format!("{} {} {}", s.map(|x| x.to_string()).unwrap_or("-1".into()), e.map(|x| x.to_string()).unwrap_or("-1".into()), lab));
                }
                tin.push(json!([s.map(|x| frame_cands(x, rate, fp)).unwrap_or_default(), e.map(|x| frame_cands(x, rate, fp)).unwrap_or_default()]));
            }
            let mut form_lens: Vec<usize> = Vec::new();
            let r = guarded(|| -> Result<(Vec<MeanVari>, usize, Vec<usize>, usize), String> {
                let l = Labels::load_from_strings(rate, fp, &lines).map_err(|e| format!("load_from_strings: {}", e))?;
                let m = Models::new(l.labels(), &engine.voices, engine.condition.get_interporation_weight());
                let p = m.duration();
                let d = DurationEstimator::new(p.clone(), m.nstate()).create_with_alignment(l.times());
                let w = engine.synthesize(&lines[..]).map_err(|e| format!("synthesize: {}", e))?;
                // the other input forms that carry time stamps
                let mut forms = vec![engine.synthesize(lines.clone()).map_err(|e| format!("synthesize(Vec<String>): {}", e))?.len()];
                macro_rules! arr {
                    ($n:literal) => {{
                        let a: &[String; $n] = lines[..].try_into().unwrap();
                        engine.synthesize(a).map_err(|e| format!("synthesize(&[String; N]): {}", e))?.len()
                    }};
                }
                match lines.len() {
                    1 => forms.push(arr!(1)),
                    2 => forms.push(arr!(2)),
                    3 => forms.push(arr!(3)),
                    4 => forms.push(arr!(4)),
                    5 => forms.push(arr!(5)),
                    6 => forms.push(arr!(6)),
                    7 => forms.push(arr!(7)),
                    _ => {}
                }
                let strs: Vec<&str> = lines.iter().map(|s| s.as_str()).collect();
                forms.push(engine.synthesize(&strs[..]).map_err(|e| format!("synthesize(&[&str]): {}", e))?.len());
                form_lens = forms;
                Ok((p, m.nstate(), d, w.len()))
            });
            match r {
                Ok(Ok((p, nstate, d, len))) => {
                    out.line(&json!({"ev": "pset", "n": p.len(), "mq": mq_of(&p), "source": "bundled-align"}));
                    out.line(&json!({"ev": "align", "nstate": nstate, "tin": tin, "result": d, "F": len / fp, "rem": len % fp, "rate": rate, "fperiod": fp, "lines": lines, "form_lens": form_lens}));
                }
                Ok(Err(e)) => out.line(&json!({"ev": "error", "msg": e, "lines": lines})),
                Err(m) => out.line(&json!({"ev": "panic", "in": "align", "msg": m, "lines": lines})),
            }
        }
    }
    out.finish();
}
