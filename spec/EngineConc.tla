----------------------------- MODULE EngineConc -----------------------------
(* k threads calling synthesize / stepping generators on ONE shared engine (C03, DESIGN 3.10).
   Each call works on private state: Begin(t) snapshots what the call depends on (the content key),
   Frame(t) renders one frame, End(t) returns.  The engine itself is read-only for the whole run.
   Constant Hidden adds a shared noise generator that every Frame advances and folds into its output -
   a deliberately wrong design for which TLC must find the determinism violation (non-vacuity). *)
EXTENDS Integers, Sequences, FiniteSets, TLC
CONSTANTS Threads, Utts, FramesOf, Hidden, MaxCalls
VARIABLES pc,      \* Threads -> "idle" | "busy"
          loc,     \* Threads -> [key, left, acc]   private state of the running call
          shared,  \* hidden shared state (only used when Hidden)
          outs,    \* set of <<key, value>> returned so far
          calls,   \* number of calls started (bound)
          engine   \* the engine's observable settings (never written)
vars == <<pc, loc, shared, outs, calls, engine>>
Init == /\ pc = [t \in Threads |-> "idle"] /\ loc = [t \in Threads |-> [key |-> 0, left |-> 0, acc |-> 0]]
        /\ shared = 0 /\ outs = {} /\ calls = 0 /\ engine = "settings"
Begin(t, u) == /\ pc[t] = "idle" /\ calls < MaxCalls
               /\ pc' = [pc EXCEPT ![t] = "busy"]
               /\ loc' = [loc EXCEPT ![t] = [key |-> u, left |-> FramesOf[u], acc |-> 0]]
               /\ calls' = calls + 1 /\ UNCHANGED <<shared, outs, engine>>
Frame(t) == /\ pc[t] = "busy" /\ loc[t].left > 0
            /\ loc' = [loc EXCEPT ![t].left = @ - 1, ![t].acc = IF Hidden THEN (@ * 3 + shared) % 7 ELSE @]
            /\ shared' = IF Hidden THEN (shared + 1) % 3 ELSE shared
            /\ UNCHANGED <<pc, outs, calls, engine>>
End(t) == /\ pc[t] = "busy" /\ loc[t].left = 0
          /\ outs' = outs \cup {<<loc[t].key, loc[t].acc>>}
          /\ pc' = [pc EXCEPT ![t] = "idle"]
          /\ UNCHANGED <<loc, shared, calls, engine>>
Next == \E t \in Threads : (\E u \in Utts : Begin(t, u)) \/ Frame(t) \/ End(t)
Spec == Init /\ [][Next]_vars
\* every completed call's output is a function of (voices, condition, labels)
Deterministic == \A a, b \in outs : a[1] = b[1] => a[2] = b[2]
EngineUntouched == engine = "settings"
\* ---- progress and independence: no call waits for another thread (there is no lock to wait on)
Work(t) == Frame(t) \/ End(t)
FairSpec == Spec /\ \A t \in Threads : WF_vars(Work(t))
\* with each thread scheduled fairly on its own work, every started call returns - whatever the others do
CallsReturn == \A t \in Threads : (pc[t] = "busy") ~> (pc[t] = "idle")
\* a step changes the private state of at most one thread
NoCrossTalk == [][\A t \in Threads : (pc'[t] # pc[t] \/ loc'[t] # loc[t]) =>
                     \A o \in Threads \ {t} : pc'[o] = pc[o] /\ loc'[o] = loc[o]]_vars
\* results are only ever added
OutsGrow == [][outs \subseteq outs']_vars
=============================================================================
