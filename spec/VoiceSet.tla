------------------------------ MODULE VoiceSet ------------------------------
(* Voice sets, interpolation weights and interpolation (C10, C19), DESIGN 3.4 / 3.9.

   Compatible(v1, v2): the metadata that must agree before two voices may be combined.
   Weights machine: per quantity (duration, parameter[s], gv[s]) an effective weight vector;
   an update is accepted iff its length equals the number of voices and it sums to 1, otherwise
   the state is unchanged and an error is returned.
   Interp: every Gaussian used for synthesis is the weight-average of the Gaussians selected by
   each voice's own trees, with the weight vector of that quantity. *)
EXTENDS Voice

\* ---- compatibility
StreamMeta(st) == [vlen |-> st.vlen, nwin |-> Len(st.wins), msd |-> st.msd, usegv |-> st.usegv, opts |-> st.opts]
Compatible(a, b) ==
  /\ a.rate = b.rate /\ a.fperiod = b.fperiod /\ a.nstate = b.nstate
  /\ Len(a.streams) = Len(b.streams)
  /\ \A s \in 1..Len(a.streams) : s <= Len(b.streams) =>
        a.streams[s].name = b.streams[s].name /\ StreamMeta(a.streams[s]) = StreamMeta(b.streams[s])
  /\ a.gvoff = b.gvoff
SetOK(vs) == Len(vs) >= 1 /\ \A i \in 2..Len(vs) : Compatible(vs[1], vs[i])

\* ---- weights: dyadic vectors in eighths; an update candidate may carry a defect tag
\* cand == [w : Seq(Int) (eighths), tag : {"ok", "nan", "eps"}]   "eps": first component + 2e-6, "nan": first component NaN
RECURSIVE SumSeq(_)
SumSeq(s) == IF s = <<>> THEN 0 ELSE Head(s) + SumSeq(Tail(s))
Valid(c, nv) == c.tag = "ok" /\ Len(c.w) = nv /\ SumSeq(c.w) = 8

\* ---- interpolation in exact arithmetic: words normalised to 1/64, weights in 1/8 => results in 1/512
N64(d) == d[1] * Pow2(6 - d[2])
Interp(ws, wordsPerVoice) ==
  [j \in 1..Len(wordsPerVoice[1]) |-> SumSeq([vv \in 1..Len(ws) |-> ws[vv] * N64(wordsPerVoice[vv][j])])]
\* which weight vector feeds which quantity
DurParams(vs, eff, l) == Interp(eff.dur, [i \in 1..Len(vs) |-> Words(vs[i].dur, 2, l)])
StreamParams(vs, eff, s, state, l) == Interp(eff.par[s], [i \in 1..Len(vs) |-> Words(vs[i].streams[s].model, state, l)])
GvParams(vs, eff, s, l) == Interp(eff.gv[s], [i \in 1..Len(vs) |-> Words(vs[i].streams[s].gv, 2, l)])

\* laws of Interp (checked in MC_VoiceSet)
Vertex(k, n) == [i \in 1..n |-> IF i = k THEN 8 ELSE 0]
=============================================================================
