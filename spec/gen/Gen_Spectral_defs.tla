---- MODULE Gen_Spectral_defs ----
EXTENDS Gen_Spectral
AlphasQ == {0, 420, 550}
AlphasT == {0, 250, 420, 550, 600}
RatesQ == {16000, 48000}
RatesT == {8000, 16000, 48000, 96000}
OrdersQ == {2, 3, 4, 5, 8, 12, 18, 25, 33, 40}
OrdersT == 2..40
PostOrdersQ == {2, 3, 4, 9, 25, 40}
LspOrdersQ == {2, 3, 4, 5, 8}
LspOrdersT == 2..8
====
