---------------------------- MODULE CondInt ----------------------------
(* The clamping laws of jbonsai::engine::Condition (C20) over UNBOUNDED arguments, for Apalache.

   spec/Condition.tla works on finite literal tables (so that TLC can enumerate and the harness can replay);
   here the same setters act on integers - any order-preserving embedding of the arguments will do, because
   the setters only compare and copy: reals scaled by a common factor, or the 2^64 totally ordered f64 bit
   patterns.  Zero, One, Eps (the image of 1e-6) are constants with 0 <= Zero < Eps < One.  Apalache checks that
   RangeLaw is INDUCTIVE:  Init => RangeLaw  (length 0)  and  RangeLaw /\ Next => RangeLaw'  (length 1 from IndInit),
   i.e. it holds after any number of setter calls with any integer arguments, in any order, on any stream. *)
EXTENDS Integers

CONSTANTS
  \* @type: Int;
  Zero,
  \* @type: Int;
  One,
  \* @type: Int;
  Eps,
  \* @type: Int;
  NStream

ASSUME Zero < Eps /\ Eps < One /\ NStream \in 2..3

VARIABLES
  \* @type: Int;
  rate,
  \* @type: Int;
  fperiod,
  \* @type: Int;
  volume,
  \* @type: Int -> Int;
  thr,
  \* @type: Int -> Int;
  gvw,
  \* @type: Bool;
  align,
  \* @type: Int;
  speed,
  \* @type: Int;
  alpha,
  \* @type: Int;
  beta,
  \* @type: Int;
  halftone

Streams == {s \in 0..2 : s < NStream}
Max2(a, b) == IF a > b THEN a ELSE b
Min2(a, b) == IF a < b THEN a ELSE b
Clamp(x, lo, hi) == Max2(lo, Min2(x, hi))

ConstInit == Zero = 0 /\ Eps = 1 /\ One = 1000000 /\ NStream \in 2..3

Init == /\ rate \in Int /\ rate >= 1 /\ fperiod \in Int /\ fperiod >= 1            \* header values accepted by the loader
        /\ volume = 0
        /\ thr = [s \in Streams |-> (One \div 2)]
        /\ gvw = [s \in Streams |-> One]
        /\ align = FALSE /\ speed = One
        /\ alpha \in Int /\ alpha >= Zero /\ alpha <= One       \* ALPHA option of the voice
        /\ beta = Zero /\ halftone = Zero

SetRate(x)     == rate' = Max2(x, 1) /\ UNCHANGED <<fperiod, volume, thr, gvw, align, speed, alpha, beta, halftone>>
SetFperiod(x)  == fperiod' = Max2(x, 1) /\ UNCHANGED <<rate, volume, thr, gvw, align, speed, alpha, beta, halftone>>
SetVolume(x)   == volume' = x /\ UNCHANGED <<rate, fperiod, thr, gvw, align, speed, alpha, beta, halftone>>
SetThr(s, x)   == thr' = [thr EXCEPT ![s] = Clamp(x, Zero, One)] /\ UNCHANGED <<rate, fperiod, volume, gvw, align, speed, alpha, beta, halftone>>
SetGvw(s, x)   == gvw' = [gvw EXCEPT ![s] = Max2(x, Zero)] /\ UNCHANGED <<rate, fperiod, volume, thr, align, speed, alpha, beta, halftone>>
SetAlign(b)    == align' = b /\ UNCHANGED <<rate, fperiod, volume, thr, gvw, speed, alpha, beta, halftone>>
SetSpeed(x)    == speed' = Max2(x, Eps) /\ UNCHANGED <<rate, fperiod, volume, thr, gvw, align, alpha, beta, halftone>>
SetAlpha(x)    == alpha' = Clamp(x, Zero, One) /\ UNCHANGED <<rate, fperiod, volume, thr, gvw, align, speed, beta, halftone>>
SetBeta(x)     == beta' = Clamp(x, Zero, One) /\ UNCHANGED <<rate, fperiod, volume, thr, gvw, align, speed, alpha, halftone>>
SetHalfTone(x) == halftone' = x /\ UNCHANGED <<rate, fperiod, volume, thr, gvw, align, speed, alpha, beta>>

Next == \E x \in Int :
          \/ SetRate(x) \/ SetFperiod(x) \/ SetVolume(x) \/ SetSpeed(x) \/ SetAlpha(x) \/ SetBeta(x) \/ SetHalfTone(x)
          \/ \E s \in Streams : SetThr(s, x) \/ SetGvw(s, x)
          \/ SetAlign(x > 0)

TypeOK == /\ DOMAIN thr = Streams /\ DOMAIN gvw = Streams
RangeLaw == /\ TypeOK
            /\ rate >= 1 /\ fperiod >= 1
            /\ \A s \in Streams : thr[s] >= Zero /\ thr[s] <= One /\ gvw[s] >= Zero
            /\ speed >= Eps /\ alpha >= Zero /\ alpha <= One /\ beta >= Zero /\ beta <= One

\* an arbitrary state satisfying the invariant (start of the inductive step)
IndInit == /\ rate \in Int /\ fperiod \in Int /\ volume \in Int /\ speed \in Int /\ alpha \in Int /\ beta \in Int /\ halftone \in Int
           /\ align \in BOOLEAN
           /\ thr \in [Streams -> Int] /\ gvw \in [Streams -> Int]
           /\ RangeLaw
=============================================================================
