CONSTANTS Engines = {e1}  Gens = {g1, g2}  Utts <- MCUtts  NStream = 2  GvStreams = {1}  Hidden = FALSE
  SFields = {"speed"}  TFields = {}
SPECIFICATION Spec
INVARIANTS Deterministic
PROPERTIES CallsArePure GenFrozen GenIndependent OutsOnlyByCalls
CONSTRAINT Bound
VIEW View
CHECK_DEADLOCK FALSE
