---------------------------- MODULE SpectralGrid ----------------------------
(* Model spectra on frequencies with rational cosine (DESIGN 3.11).

   For a warped frequency theta with cos(theta) = k/16, cos(m theta) = T_m(k/16) (Chebyshev), so the
   model log-spectrum of a mel-cepstrum c (entries in 1/64) is  sum_m c_m T_m(k/16), computed here in
   2^-20 fixed point.  The recurrence's rounding error is bounded by Budget below (model-checked against
   exact rational arithmetic for small orders in MC_SpectralGrid).

   For LSP filters the squared magnitude of the LPC polynomial with line spectral cosines x_i = k_i/8 at
   cos(theta) = X/8 has the closed form  |A|^2 = N / 4^(m+2)  with
       m even:  N = (8+X) PA^2 + (8-X) QA^2          m odd:  N = PA^2 + (64 - X^2) QA^2
   where PA = prod over odd-numbered i of (X - k_i), QA = prod over even-numbered i of (X - k_i)
   (P and Q are in quadrature on the unit circle).  MC_SpectralGrid checks the closed form against the
   definition by polynomial multiplication of the LSP factors. *)
EXTENDS Integers, Sequences

Abs(x) == IF x < 0 THEN -x ELSE x
ONE == 1048576                                   \* 2^20
\* T_m(k/16) in 2^-20 fixed point: T_{m+1} = 2x T_m - T_{m-1} = (k T_m) div 8 - T_{m-1}
RECURSIVE Cheb(_,_,_,_,_)
Cheb(k, m, n, cur, prev) == IF m = n THEN cur ELSE Cheb(k, m + 1, n, (k * cur) \div 8 - prev, cur)
T(k, n) == IF n = 0 THEN ONE ELSE Cheb(k, 1, n, (k * ONE) \div 16, ONE)
\* model log-magnitude (2^-20 neper) at cos = k/16 of the cepstrum c64 (c64[1] = c_0), terms m >= from
RECURSIVE RefFrom(_,_,_)
RefFrom(c64, k, m) == IF m > Len(c64) THEN 0 ELSE (c64[m] * T(k, m - 1)) \div 64 + RefFrom(c64, k, m + 1)
Ref(c64, k) == RefFrom(c64, k, 1)
RECURSIVE SumAbsFrom(_,_)
SumAbsFrom(c64, m) == IF m > Len(c64) THEN 0 ELSE Abs(c64[m]) + SumAbsFrom(c64, m + 1)
Grid == -16..16
\* 0.01 neper + fixed-point budget (1.6e-3 neper for sum|c| <= 2, order <= 40) + truncation/quantisation
Tol06 == 10486 + 1700 + 42

\* ---- LSP closed form (cosines in eighths)
RECURSIVE ProdSel(_,_,_,_)
ProdSel(ks, X, i, par) == IF i > Len(ks) THEN 1 ELSE (IF i % 2 = par THEN X - ks[i] ELSE 1) * ProdSel(ks, X, i + 1, par)
PA(ks, X) == ProdSel(ks, X, 1, 1)      \* odd-numbered frequencies
QA(ks, X) == ProdSel(ks, X, 1, 0)
NumA2(ks, X) == LET m == Len(ks)  pa == PA(ks, X)  qa == QA(ks, X) IN
                IF m % 2 = 0 THEN (8 + X) * pa * pa + (8 - X) * qa * qa
                ELSE pa * pa + (64 - X * X) * qa * qa
\* safe to evaluate in 32 bits
Fits(ks, X) == Abs(PA(ks, X)) <= 8000 /\ Abs(QA(ks, X)) <= 8000

\* ---- the same closed form on the twice finer grid cos(theta) = Y/16 (line spectral cosines still k_i/8 = 2 k_i/16):
\* |A|^2 = NumA2h / (2^(m+1) 4^(m+2)).  Used to state the "stable range" of C01 (spectral shape within +-4 nepers of the gain)
\* for filter orders 4 and 5, where every intermediate value stays below 2^31.
RECURSIVE ProdSelH(_,_,_,_)
ProdSelH(ks, Y, i, par) == IF i > Len(ks) THEN 1 ELSE (IF i % 2 = par THEN Y - 2 * ks[i] ELSE 1) * ProdSelH(ks, Y, i + 1, par)
NumA2h(ks, Y) == LET m == Len(ks)  pa == ProdSelH(ks, Y, 1, 1)  qa == ProdSelH(ks, Y, 1, 0) IN
                 IF m % 2 = 0 THEN (16 + Y) * pa * pa + (16 - Y) * qa * qa
                 ELSE pa * pa + (256 - Y * Y) * qa * qa
\* exp(8/s) rounded down / exp(-8/s) as 1/x rounded down, s = 1..4: |ln|H/K|| = (s/2)|ln|A|^2| <= 4  iff  |A|^2 in [exp(-8/s), exp(8/s)]
ExpHi == <<2980, 54, 14, 7>>
RECURSIVE Pow2(_)
Pow2(e) == IF e = 0 THEN 1 ELSE 2 * Pow2(e - 1)
\* inside the stable range at the 31 frequencies cos(theta) = Y/16, Y = -15..15 (sufficient condition: integer bounds rounded inwards)
StableH(ks, stage) == LET m == Len(ks)  den == Pow2(m + 1) * Pow2(2 * (m + 2)) IN
   /\ m \in {4, 5} /\ stage \in 1..4
   /\ \A Y \in -15..15 : LET n == NumA2h(ks, Y) IN n \div ExpHi[stage] < den /\ n > den \div ExpHi[stage] + 1

\* ---- definition: A(z) = (P(z) + Q(z)) / 2 by polynomial multiplication (coefficients scaled by 4 per factor)
PolyMul(a, b) == [n \in 1..(Len(a) + Len(b) - 1) |->
                    LET RECURSIVE S(_) S(i) == IF i > Len(a) THEN 0
                          ELSE (IF n - i + 1 >= 1 /\ n - i + 1 <= Len(b) THEN a[i] * b[n - i + 1] ELSE 0) + S(i + 1) IN S(1)]
Fac(k) == <<4, -k, 4>>                         \* 4 (1 - 2 (k/8) z^-1 + z^-2)
RECURSIVE PolySel(_,_,_,_)
PolySel(ks, i, par, acc) == IF i > Len(ks) THEN acc ELSE PolySel(ks, i + 1, par, IF i % 2 = par THEN PolyMul(acc, Fac(ks[i])) ELSE acc)
Pad(a, n) == [i \in 1..n |-> IF i <= Len(a) THEN a[i] ELSE 0]
\* 2 A(z) scaled by 4^(ceil(m/2))
TwoA(ks) == LET m == Len(ks) IN
   IF m % 2 = 0 THEN LET p == PolyMul(<<1, 1>>, PolySel(ks, 1, 1, <<1>>))   q == PolyMul(<<1, -1>>, PolySel(ks, 1, 0, <<1>>))
                     IN [i \in 1..Len(p) |-> p[i] + q[i]]
   ELSE LET p == PolySel(ks, 1, 1, <<1>>)   q0 == PolyMul(<<1, 0, -1>>, PolySel(ks, 1, 0, <<1>>))
            q == [i \in 1..Len(q0) |-> 4 * q0[i]]
        IN [i \in 1..Len(p) |-> p[i] + q[i]]
\* autocorrelation r_d of a coefficient sequence
Auto(a, d) == LET RECURSIVE S(_) S(i) == IF i + d > Len(a) THEN 0 ELSE a[i] * a[i + d] + S(i + 1) IN S(1)
\* 8^d T_d(X/8): S_{d+1} = 2 X S_d - 64 S_{d-1}
RECURSIVE Cheb8(_,_,_,_,_)
Cheb8(X, d, n, cur, prev) == IF d = n THEN cur ELSE Cheb8(X, d + 1, n, 2 * X * cur - 64 * prev, cur)
T8(X, n) == IF n = 0 THEN 1 ELSE Cheb8(X, 1, n, X, 1)
RECURSIVE Pow(_,_)
Pow(b, e) == IF e = 0 THEN 1 ELSE b * Pow(b, e - 1)
\* |2A|^2 scaled: sum_d (2 - [d=0]) r_d T_d(x) * 8^D  with D = degree
TwoA2Scaled(ks, X) == LET a == TwoA(ks)  D == Len(a) - 1
                          RECURSIVE S(_) S(d) == IF d > D THEN 0 ELSE (IF d = 0 THEN 1 ELSE 2) * Auto(a, d) * T8(X, d) * Pow(8, D - d) + S(d + 1)
                      IN S(0)
=============================================================================
