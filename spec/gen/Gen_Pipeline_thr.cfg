CONSTANTS D = 4  NStates = {1, 2, 3}  Shapes = {1, 3, 4}  Salts = {0, 1, 2}  Stages = {0}  WinSets = {1, 3}
  MaxUttStates = 10  MaxLabels = 2  LabelIdx = {1, 5, 7}  CondIdx = {9, 10, 11, 12, 13, 14, 15, 16, 17}
SPECIFICATION Spec
INVARIANTS Emit EmitVoice
CHECK_DEADLOCK FALSE
