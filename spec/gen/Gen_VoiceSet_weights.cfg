CONSTANTS Mode = "weights"  L = 2  Fams <- FamsW  Salts = {0}  NVoices = 2
SPECIFICATION Spec
INVARIANTS Emit WeightsValid
CHECK_DEADLOCK FALSE
