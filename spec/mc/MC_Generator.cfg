CONSTANTS MaxTotal = 6  MaxBuf = 3
SPECIFICATION Spec
INVARIANTS TypeOK PrefixOfOneShot CursorExact FinishCompletes ExhaustedSilent OneFramePerStep SuffixExact
PROPERTY Monotone
CHECK_DEADLOCK FALSE
