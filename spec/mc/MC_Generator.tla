---- MODULE MC_Generator ----
EXTENDS Generator
====
