------------------------------ MODULE Duration ------------------------------
(* State-duration determination (jbonsai::duration::DurationEstimator) in exact rational
   arithmetic (DESIGN 3.5).

   A parameter sequence is a pair of integer sequences (m, v): state i has mean m[i]/D and
   variance v[i]/D (v[i] > 0).  All results are SETS of duration vectors: the implementation
   computes in f64, and wherever the exact value sits on a rounding tie (x.5) or two states
   have exactly equal adjustment cost, either outcome is accepted - except that states with
   identical (mean, variance, current duration) resolve to the first, as Iterator::min_by does.
   Away from ties the exact margins are >= 1/(small denominator) >> f64 error. *)
EXTENDS Integers, Sequences, FiniteSets

CONSTANT D      \* common denominator of means and variances (e.g. 4: quarters)

Abs(x) == IF x < 0 THEN -x ELSE x
Max2(a, b) == IF a > b THEN a ELSE b
RECURSIVE Sum(_)
Sum(s) == IF s = <<>> THEN 0 ELSE Head(s) + Sum(Tail(s))

\* floor of a/b for b > 0 and any integer a   (TLC's \div already floors)
Floor(a, b) == a \div b
\* a/b is exactly k + 1/2
IsTie(a, b) == (2 * a) % b = 0 /\ ((2 * a) \div b) % 2 # 0
\* f64::round: half away from zero
RoundHalfAway(a, b) == IF a >= 0 THEN (2 * a + b) \div (2 * b) ELSE -((2 * (-a) + b) \div (2 * b))
\* both neighbours at an exact tie, else the nearest integer
RoundSet(a, b) == IF IsTie(a, b) THEN {Floor(a, b), Floor(a, b) + 1} ELSE {RoundHalfAway(a, b)}

\* all sequences of length Len(sets) whose i-th element is drawn from sets[i]
RECURSIVE Product(_)
Product(sets) == IF sets = <<>> THEN {<<>>}
                 ELSE {<<x>> \o r : x \in Head(sets), r \in Product(Tail(sets))}

\* ---- estimate_duration with rho = 0: exact (m/D is exactly representable; ties round away)
Est0(m) == [i \in 1..Len(m) |-> Max2(1, RoundHalfAway(m[i], D))]

\* ---- estimate_duration with rho = rn/rd (rd > 0): set-valued at ties
EstSet(m, v, rn, rd) == Product([i \in 1..Len(m) |-> {Max2(1, r) : r \in RoundSet(m[i] * rd + rn * v[i], D * rd)}])

\* cost(d, i) = |rho - (d - mean_i)/vari_i| = CostNum / (rd * v[i])
CostNum(di, mi, vi, rn, rd) == Abs(rn * vi - (di * D - mi) * rd)
Less(i, j, d, dl, m, v, rn, rd) ==
   CostNum(d[i] + dl, m[i], v[i], rn, rd) * v[j] < CostNum(d[j] + dl, m[j], v[j], rn, rd) * v[i]
ArgMins(d, cand, dl, m, v, rn, rd) == {i \in cand : \A j \in cand : ~Less(j, i, d, dl, m, v, rn, rd)}
\* identical states resolve to the first
Allowed(d, cand, dl, m, v, rn, rd) ==
   LET A == ArgMins(d, cand, dl, m, v, rn, rd) IN
   {i \in A : ~\E j \in A : j < i /\ m[j] = m[i] /\ v[j] = v[i] /\ d[j] = d[i]}

\* one iteration of the greedy adjustment loop, as a relation
StepSet(d, T, m, v, rn, rd) ==
   IF Sum(d) < T THEN {[d EXCEPT ![i] = @ + 1] : i \in Allowed(d, 1..Len(d), 1, m, v, rn, rd)}
   ELSE IF Sum(d) > T THEN {[d EXCEPT ![i] = @ - 1] : i \in Allowed(d, {k \in 1..Len(d) : d[k] > 1}, -1, m, v, rn, rd)}
   ELSE {d}
RECURSIVE Fix(_,_,_,_,_,_,_)
Fix(S, T, m, v, rn, rd, fuel) ==
   IF \A d \in S : Sum(d) = T THEN S
   ELSE IF fuel = 0 THEN {}                                  \* non-termination would show as the empty set
   ELSE Fix(UNION {StepSet(d, T, m, v, rn, rd) : d \in S}, T, m, v, rn, rd, fuel - 1)

Ones(n) == [i \in 1..n |-> 1]
\* estimate_duration_with_frame_length for an integer target T >= 1
WithLength(m, v, T) ==
   IF T <= Len(m) THEN {Ones(Len(m))}
   ELSE LET rn == T * D - Sum(m)  rd == Sum(v)
            S0 == EstSet(m, v, rn, rd)
            fuel == Max2(0, T) + Sum([i \in 1..Len(m) |-> Max2(1, Abs(m[i]) \div D + 2 + (Abs(rn) * v[i]) \div (D * rd))])
        IN Fix(S0, T, m, v, rn, rd, fuel)

\* target from a real frame length a/b (b > 0): frame_length.round().max(1.0)
Target(a, b) == Max2(1, RoundHalfAway(a, b))

\* DurationEstimator::create(speed) with speed = p/q (p, q > 0)
Create(m, v, p, q) ==
   IF p = q THEN {Est0(m)}
   ELSE IF Len(m) = 0 THEN {<<>>}
   ELSE WithLength(m, v, Target(Sum(Est0(m)) * q, p))

\* ---- alignment.  ends[k] = end of label k in 1/E frames, or -1 if unknown; nstate states per label.
\* Result: sequence of groups [lo, hi, set] over state indices; trailing labels without a known end
\* form a last group that falls back to the model durations (Est0).
RECURSIVE AlignFrom(_,_,_,_,_,_,_,_)
AlignFrom(m, v, nstate, ends, E, k, nextState, fc) ==
   IF k > Len(ends) THEN
        IF nextState > Len(m) THEN <<>>
        ELSE << [lo |-> nextState, hi |-> Len(m), known |-> FALSE, target |-> 0,
                 set |-> {Est0(SubSeq(m, nextState, Len(m)))}] >>
   ELSE IF ends[k] < 0 THEN AlignFrom(m, v, nstate, ends, E, k + 1, nextState, fc)
   ELSE LET hi == k * nstate
            T  == Target(ends[k] - E * fc, E)
            gm == SubSeq(m, nextState, hi)   gv == SubSeq(v, nextState, hi)
            set == WithLength(gm, gv, T)
            tot == Max2(T, hi - nextState + 1)
        IN << [lo |-> nextState, hi |-> hi, known |-> TRUE, target |-> T, set |-> set] >>
           \o AlignFrom(m, v, nstate, ends, E, k + 1, hi + 1, fc + tot)
Align(m, v, nstate, ends, E) == AlignFrom(m, v, nstate, ends, E, 1, 1, 0)

\* ---- Labels::new: neighbour fill of start / end times (times[k] = <<start, end>>, negative = unknown)
RECURSIVE FillFrom(_,_)
FillFrom(t, i) ==
   IF i > Len(t) THEN t
   ELSE LET t1 == IF i + 1 <= Len(t) THEN
                     (IF t[i][2] < 0 /\ t[i+1][1] >= 0 THEN [t EXCEPT ![i] = <<t[i][1], t[i+1][1]>>]
                      ELSE IF t[i][2] >= 0 /\ t[i+1][1] < 0 THEN [t EXCEPT ![i+1] = <<t[i][2], t[i+1][2]>>]
                      ELSE t)
                   ELSE t
            norm(x) == IF x < 0 THEN -1 ELSE x
            t2 == [t1 EXCEPT ![i] = <<norm(t1[i][1]), norm(t1[i][2])>>]
        IN FillFrom(t2, i + 1)
FillTimes(t) == FillFrom(t, 1)
=============================================================================
