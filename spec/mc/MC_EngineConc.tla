---- MODULE MC_EngineConc ----
EXTENDS EngineConc
MCFrames == <<2, 3>>
====
