CONSTANTS Engines = {e1, e2, e3}  Gens = {g1, g2}  Utts <- GUtts  NStream = 3  GvStreams = {1, 2}  Hidden = FALSE
  SFields = {"speed", "ht", "vol", "alpha", "beta", "fperiod", "rate", "iw"}  TFields = {"thr", "gvw"}  L = 24
SPECIFICATION GSpec
INVARIANTS Emit Deterministic
CHECK_DEADLOCK FALSE
