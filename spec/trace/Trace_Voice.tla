---- MODULE Trace_Voice ----
(* Trace validation for C04 on a real voice file (I->S).

   TABLES (env) is the JSON export of the file's text and numbers made by the trusted
   tokenizer bin/htsvoice.py (question lines, tree rows, PDF words as int32 bit patterns;
   no semantics).  Each `sel` event logs what jbonsai returned for one (model, state, label):
   the reported tree index, the PDF index and the parameter words re-encoded as f32 bits in
   file order (means | variances | voicing weight).  The specification recomputes the
   selection with Glob!Match and compares.  `meta` events compare header numbers. *)
EXTENDS Glob, TLC, Json, IOUtils, Integers, Sequences
Tab == JsonDeserialize(IOEnv.TABLES)
Rec == ndJsonDeserialize(IOEnv.TRACE)

QHolds(m, qname, label) == QTest(Tab.models[m].qs[qname], label)
\* rows of the real voice have sequential ids (row k has id -(k-1)); fall back to a search otherwise
RowOf(nodes, id) == IF 1 - id \in 1..Len(nodes) /\ nodes[1 - id].id = id THEN 1 - id
                    ELSE CHOOSE r \in 1..Len(nodes) : nodes[r].id = id
RECURSIVE Walk(_,_,_,_)
Walk(m, nodes, row, label) ==
  LET nd == nodes[row]
      c  == IF QHolds(m, nd.q, label) THEN nd.yes ELSE nd.no
  IN IF c.k = "p" THEN c.v ELSE Walk(m, nodes, RowOf(nodes, c.v), label)
TreePos(m, state) == CHOOSE p \in 1..Len(Tab.models[m].trees) :
                        Tab.models[m].trees[p].state = state /\ \A r \in 1..(p-1) : Tab.models[m].trees[r].state # state
Select(m, state, label) ==
  LET p == TreePos(m, state)  tr == Tab.models[m].trees[p] IN
  <<p + 1, IF Len(tr.nodes) = 0 THEN tr.leaf ELSE Walk(m, tr.nodes, 1, label)>>

VARIABLE l
Init == l = 1
Sel == /\ l <= Len(Rec) /\ Rec[l].ev = "sel" /\ l' = l + 1
       /\ LET e == Rec[l]  s == Select(e.model, e.state, e.label) IN
            /\ s = <<e.tree, e.pdf>>
            /\ Tab.models[e.model].pdfs[s[1] - 1][s[2]] = e.words
\* utterance level (Models): the Gaussian handed to synthesis for one label of an utterance is what the trees select for
\* that label alone.  The duration model has one tree (state tag 2) whose PDF holds the means, then the variances, of all states.
USel == /\ l <= Len(Rec) /\ Rec[l].ev = "usel" /\ l' = l + 1
        /\ LET e == Rec[l] IN
             IF e.model = "dur"
             THEN LET s == Select("dur", 2, e.label)  w == Tab.models["dur"].pdfs[s[1] - 1][s[2]]  ns == Len(w) \div 2
                  IN e.words = << w[e.state - 1], w[ns + e.state - 1] >>
             ELSE LET s == Select(e.model, e.state, e.label) IN Tab.models[e.model].pdfs[s[1] - 1][s[2]] = e.words
Meta == /\ l <= Len(Rec) /\ Rec[l].ev = "meta" /\ l' = l + 1
        /\ Tab.global[Rec[l].key] = Rec[l].value
SMeta == /\ l <= Len(Rec) /\ Rec[l].ev = "smeta" /\ l' = l + 1
         /\ Tab.stream[Rec[l].key] = Rec[l].value
Win == /\ l <= Len(Rec) /\ Rec[l].ev = "win" /\ l' = l + 1
       /\ Tab.windows[Rec[l].stream][Rec[l].index] = Rec[l].toks
\* under the default condition the engine's trajectories are those of parameter generation on exactly these Gaussians (digests)
Handoff == /\ l <= Len(Rec) /\ Rec[l].ev = "handoff" /\ l' = l + 1 /\ Rec[l].equal
Next == Sel \/ USel \/ Meta \/ SMeta \/ Win \/ Handoff
Spec == Init /\ [][Next]_l
Accepted == IF TLCGet("stats").diameter - 1 = Len(Rec) THEN TRUE
            ELSE Print(<<"REJECT at", TLCGet("stats").diameter>>, FALSE)
====
