"""Per-property check pipelines (see DESIGN.md section 4)."""
import json, os, shutil, subprocess, time
from vlib import *   # noqa

S = spec_path


# --------------------------------------------------------------------------- generic stages

def replay_stage(ctx, name, cmd, cases, extra_args=(), timeout=3600, distinct_key=None):
    """S->I: write the TLC-generated cases, run the harness replayer `cmd`, collect mismatches."""
    cpath = ctx.path(name + ".cases.jsonl")
    rpath = ctx.path(name + ".results.jsonl")
    write_jsonl(cpath, cases)
    p = run_jbv([cmd, cpath, rpath] + list(extra_args), timeout=timeout)
    if p.returncode != 0:
        log(p.stderr[-3000:])
        raise ToolError("replayer %s failed (rc=%s)" % (cmd, p.returncode))
    rows = read_jsonl(rpath)
    summary = None
    nbad = 0
    for r in rows:
        if "summary" in r:
            summary = r["summary"]
            continue
        nbad += 1
        ctx.violation(r.get("key", "mismatch"), "%s: %s" % (name, r.get("msg", "")), r)
    if summary is None:
        raise ToolError("replayer %s wrote no summary" % cmd)
    ctx.traces += summary.get("cases", len(cases))
    ctx.evaluations += summary.get("runs", summary.get("cases", len(cases)))
    for c in cases[:200000]:
        ctx.distinct.add(distinct_key(c) if distinct_key else json.dumps(c, sort_keys=True)[:400])
    if cases:
        ctx.sample({"stage": name, "case": cases[len(cases) // 2]})
    ctx.stage("REPLAY " + name, mismatching=nbad, **{k: v for k, v in summary.items() if isinstance(v, (int, float))})
    return summary


def record_stage(ctx, name, cmd, args, timeout=3600, env=None):
    tpath = ctx.path(name + ".ndjson")
    p = run_jbv([cmd] + list(args) + [tpath], timeout=timeout, env=env)
    if p.returncode != 0:
        log(p.stderr[-3000:])
        raise ToolError("recorder %s failed (rc=%s)" % (cmd, p.returncode))
    return tpath


def trace_stage(ctx, name, cfg, tla, tpath, reset_ev="reset", env=None, keyfn=None, max_rounds=25, xmx=None,
                timeout=3600):
    """I->S: validate a recorded trace; a rejected run (reset..next reset) is reported and removed,
    and validation continues on the remaining runs so that one rejection does not hide others."""
    rows = read_jsonl(tpath)
    ctx.evaluations += len(rows)
    if rows:
        ctx.sample({"stage": name, "event": trunc(rows[min(1, len(rows) - 1)])})
    for r in rows:
        ctx.distinct.add(json.dumps(r, sort_keys=True)[:300])
    rounds = 0
    while rows:
        rounds += 1
        cur = ctx.path("%s.round%d.ndjson" % (name, rounds))
        write_jsonl(cur, rows)
        ok, n, bad, out = validate_trace(ctx, "%s_r%d" % (name, rounds), cfg, tla, cur, env=env, xmx=xmx, timeout=timeout)
        if ok:
            ctx.traces += n
            break
        # locate the run containing event `bad` (1-based)
        i = bad - 1
        if i >= len(rows):
            i = len(rows) - 1
        start = i
        while start > 0 and rows[start].get("ev") != reset_ev:
            start -= 1
        end = i + 1
        while end < len(rows) and rows[end].get("ev") != reset_ev:
            end += 1
        run = rows[start:end]
        evt = rows[i]
        key = keyfn(evt, run) if keyfn else default_trace_key(evt)
        ctx.violation(key, "%s: specification rejects event #%d of the recorded run: %s" % (name, i - start + 1, json.dumps(trunc(evt))[:500]),
                      {"rejected_event_index_in_run": i - start, "run": [trunc(r, 4000) for r in run]})
        rows = rows[:start] + rows[end:]
        if rounds >= max_rounds:
            ctx.stage("TRACE %s: stopped after %d rejected runs" % (name, rounds))
            break
    return rounds


def trunc(r, n=300):
    out = {}
    for k, v in r.items():
        s = json.dumps(v)
        out[k] = v if len(s) <= n else (s[:n] + "...")
    return out


def default_trace_key(evt):
    if evt.get("ev") == "panic":
        return "panic:%s:%s" % (evt.get("in"), evt.get("msg"))
    return "rejected:%s" % evt.get("ev")


# --------------------------------------------------------------------------- C02

def check_C02(ctx):
    q = ctx.quick()
    mc(ctx, "Generator", S("mc", "MC_Generator.cfg"), S("mc", "MC_Generator.tla"), workers=4)
    # progress: under fairness of the productive step only, the caller's step loop drains the generator and 0 is final
    mc(ctx, "GeneratorLive", S("mc", "MC_Generator_live.cfg"), S("mc", "MC_Generator.tla"), workers=4)
    # the same cursor laws for utterances of any length and buffers of any size
    apalache_inductive(ctx, "GenInt", S("apalache", "GenInt.tla"), "Inv")
    # S->I: every call history of length <= L on generators of 0,1,2,3,5 frames
    cfg = S("gen", "Gen_Generator.cfg" if q else "Gen_Generator_thorough.cfg")
    cases = gen(ctx, "Generator", cfg, S("gen", "Gen_Generator.tla"), workers=4 if q else 8)
    tiny = render_family_voice(ctx, "tiny", "NStates = {1}  Shapes = {2}  Salts = {1}  Stages = {0}  WinSets = {3}",
                               lambda f: f["nstream"] == 3 and not f["gv"] and f["quoted"])
    replay_stage(ctx, "histories", "c02-replay", cases, extra_args=[tiny, label_table_json(ctx)],
                 distinct_key=lambda c: json.dumps([c["total"], [(h["act"], h["buf"]) for h in c["hist"]]]))
    # I->S: random histories on the bundled voice (Engine::generator vs Engine::synthesize)
    tp = record_stage(ctx, "bundled", "c02-record", [ctx.seed, 40 if q else 600, 6 if q else 30])
    trace_stage(ctx, "generator", S("trace", "Trace_Generator.cfg"), S("trace", "Trace_Generator.tla"), tp)
    # the same on a copy of the bundled voice whose PDF means are perturbed state by state (the bundled low-pass stream is
    # one constant filter: a frame offset lost in that trajectory alone would be invisible on it)
    tp2 = record_stage(ctx, "perturbed", "c02-record", [ctx.seed + 1, 25 if q else 300, 6 if q else 30],
                       env={"JBV_VOICE": perturbed_voices(ctx, 1, "all")[1]})
    trace_stage(ctx, "generator-perturbed", S("trace", "Trace_Generator.cfg"), S("trace", "Trace_Generator.tla"), tp2)
    ctx.assumptions += [
        "direct generators are built with SpeechGenerator::new / Vocoder::new inside their documented preconditions",
        "bit-equality is checked on 64-bit FNV digests per frame in the trace direction and on raw bits in the replay direction",
    ]
    return ("model_checking",
            "S->I: all call histories over {step(1..3 frames), query, finish} of length <= L on 0,1,2,3,5-frame generators "
            "(3 directly built vocoder kinds x 2 frame periods each, plus Engine::generator on a rendered one-state voice); I->S: random histories on bundled-voice utterances under random "
            "conditions; distinct = distinct histories / distinct trace events",
            {})


def apalache_inductive(ctx, name, tla, inv, cinit=None, timeout=900):
    """Unbounded design-level check: `inv` is an inductive invariant of the Apalache-typed module `tla`
    (Init => inv at length 0; IndInit (an arbitrary state satisfying inv) /\ Next => inv' at length 1)."""
    out = ctx.path("apalache_" + name)
    base = ["apalache-mc", "check", "--out-dir=" + out, "--inv=" + inv] + (["--cinit=" + cinit] if cinit else [])
    t = time.time()
    for step, extra in (("base", ["--init=Init", "--length=0"]), ("step", ["--init=IndInit", "--length=1"])):
        try:
            p = subprocess.run(base + extra + [os.path.basename(tla)], cwd=os.path.dirname(tla), stdout=subprocess.PIPE,
                               stderr=subprocess.STDOUT, text=True, timeout=timeout)
        except subprocess.TimeoutExpired:
            raise ToolError("apalache timeout (%s %s)" % (name, step))
        if "EXITCODE: OK" not in p.stdout:
            log(p.stdout[-2000:])
            raise ToolError("apalache: %s is not an inductive invariant of %s (%s case) - a specification-level error" % (inv, name, step))
    shutil.rmtree(out, ignore_errors=True)
    ctx.stage("APALACHE " + name, invariant=inv, inductive=True, wall="%.1fs" % (time.time() - t))
    ctx.states += 2


# --------------------------------------------------------------------------- C20

def check_C20(ctx):
    q = ctx.quick()
    mc(ctx, "Condition", S("mc", "MC_Condition.cfg"), S("mc", "MC_Condition.tla"), workers=8)
    # the clamping laws for unbounded arguments (any order-preserving integer image of the f64 / usize arguments)
    apalache_inductive(ctx, "CondInt", S("apalache", "CondInt.tla"), "RangeLaw", cinit="ConstInit")
    tla = S("gen", "Gen_Condition.tla")
    key = lambda c: json.dumps([(h["set"], h["s"], h["arg"]) for h in c["hist"]])
    cases = gen(ctx, "Condition_L1", S("gen", "Gen_Condition.cfg"), tla, workers=2)
    replay_stage(ctx, "single-setter", "c20-replay", cases, distinct_key=key)
    if not q:
        cases = gen(ctx, "Condition_L2", S("gen", "Gen_Condition_L2.cfg"), tla, workers=4)
        replay_stage(ctx, "setter-pairs", "c20-replay", cases, distinct_key=key)
    cases = gen(ctx, "Condition_sim", S("gen", "Gen_Condition_sim.cfg"), tla, simulate=(150 if q else 3000, 10))
    replay_stage(ctx, "setter-sequences", "c20-replay", cases, distinct_key=key)
    ctx.assumptions += ["arguments are the 16 f64 / 6 usize / 8 volume literals of Gen_Condition (incl. subnormals, -0.0, +-1e300, usize::MAX); NaN is outside the property",
                        "volume getter compared within 1e-9 dB (the implementation stores a linear gain); every other getter compared with =="]
    return ("model_checking",
            "S->I: every setter x every literal x every stream index from the freshly loaded bundled voice (exhaustive single steps; pairs in thorough) "
            "plus TLC -simulate setter sequences of length 8; after every call all getters are compared with the specification's image",
            {})


# --------------------------------------------------------------------------- shared data

BUNDLED = "/repo/models/hts_voice_nitech_jp_atr503_m001-1.05/nitech_jp_atr503_m001.htsvoice"


def label_table_json(ctx):
    import re
    s = open(S("data", "LabelData.tla")).read()
    labs = re.findall(r'^\s+"([^"]+)"', s, re.M)
    p = ctx.path("labels.json")
    json.dump(labs, open(p, "w"))
    return p


def bundled_tables_json(ctx):
    import htsvoice
    p = ctx.path("bundled_tables.json")
    json.dump(htsvoice.tables(BUNDLED), open(p, "w"))
    return p


# --------------------------------------------------------------------------- C04

def check_C04(ctx):
    q = ctx.quick()
    mc(ctx, "Glob", S("mc", "MC_Glob.cfg" if q else "MC_Glob_thorough.cfg"), S("mc", "MC_Glob.tla"), workers=8)
    mc(ctx, "Voice", S("mc", "MC_Voice_quick.cfg" if q else "MC_Voice.cfg"), S("mc", "MC_Voice.tla"), workers=8)
    cases = gen(ctx, "Voice", S("gen", "Gen_Voice.cfg" if q else "Gen_Voice_thorough.cfg"), S("gen", "Gen_Voice.tla"),
                workers=8, timeout=3000)
    sel = set()
    for c in cases:
        for st in c["says"]["streams"]:
            for row in st["model"]["sel"]:
                sel.update((st["name"], tuple(x)) for x in row)
    replay_stage(ctx, "rendered-voices", "c04-replay", cases, extra_args=[label_table_json(ctx)],
                 distinct_key=lambda c: json.dumps(c["fam"], sort_keys=True))
    # question semantics: every pool question (real and synthetic pattern-list kinds) alone and beside a second one
    qcases = gen(ctx, "Question", S("gen", "Gen_Question.cfg" if q else "Gen_Question_thorough.cfg"), S("gen", "Gen_Question.tla"), workers=4 if q else 12)
    chains = [c for c in qcases if c.get("kind") == "chain"]
    qcases = [c for c in qcases if c.get("kind") != "chain"]
    import htsvoice
    for ci, c in enumerate(chains):
        vp, ep, op = ctx.path("chain%d.htsvoice" % ci), ctx.path("chain%d.expect.json" % ci), ctx.path("chain%d.results.jsonl" % ci)
        htsvoice.chain_voice(BUNDLED, vp, c["n"], c["name"], c["pats"])
        json.dump({"n": c["n"], "expect": c["expect"]}, open(ep, "w"))
        # watchdog: the unchanged loader and walker need 0.1 s for this voice; a walk that does not come back within two
        # minutes (a truncated child index can close a cycle) is a violation, not a tool error
        try:
            p = run_jbv(["c04-chain", vp, label_table_json(ctx), ep, op], timeout=120)
        except ToolError:
            ctx.violation("chain:timeout", "deep-tree: loading the voice / selecting PDFs in a %d-node tree did not terminate within 120 s" % c["n"],
                          {"chain": c["name"], "n": c["n"]})
            ctx.stage("REPLAY deep-tree", nodes=c["n"], question=c["name"], labels=len(c["expect"]), failed="timeout")
            os.remove(vp)
            continue
        if p.returncode != 0:
            raise ToolError("c04-chain failed: " + p.stderr[-500:])
        rows = read_jsonl(op)
        bad = [r for r in rows if "key" in r]
        for r in bad:
            ctx.violation(r["key"], "deep-tree: " + r["msg"], {"chain": c["name"], "n": c["n"]})
        ctx.traces += len(c["expect"])
        ctx.stage("REPLAY deep-tree", nodes=c["n"], question=c["name"], labels=len(c["expect"]), failed=len(bad))
        os.remove(vp)
    replay_stage(ctx, "questions", "c04-replay", qcases, extra_args=[label_table_json(ctx)],
                 distinct_key=lambda c: json.dumps(c["fam"], sort_keys=True))
    ctx.stage("selection coverage", distinct_tree_pdf_pairs=len(sel))
    if len(sel) < 4:
        raise ToolError("vacuous voice family: selections do not exercise the trees")
    tp = record_stage(ctx, "bundled", "c04-record", [ctx.seed, 250 if q else 4000])
    trace_stage(ctx, "voice", S("trace", "Trace_Voice.cfg"), S("trace", "Trace_Voice.tla"), tp,
                reset_ev="__none__", env={"TABLES": bundled_tables_json(ctx)}, xmx="8g",
                keyfn=lambda e, run: "bundled:%s:%s" % (e.get("ev"), e.get("model", e.get("key", ""))))
    # an edited copy: USE_GV[LF0]:0 with the GV tree / PDF positions left in place - the file says "no GV for log F0"
    import htsvoice
    nogv = ctx.path("bundled_nogv_lf0.htsvoice")
    low = ctx.path("bundled_lf0low.htsvoice")
    htsvoice.perturb(BUNDLED, low, "lf0low", 1)      # ... and its log-F0 means lie below the 20 Hz limit of the half-tone step
    raw = open(low, "rb").read()
    os.remove(low)
    if raw.count(b"USE_GV[LF0]:1") != 1:
        raise ToolError("bundled voice: USE_GV[LF0]:1 not found exactly once")
    open(nogv, "wb").write(raw.replace(b"USE_GV[LF0]:1", b"USE_GV[LF0]:0"))
    ntab = ctx.path("nogv_tables.json")
    json.dump(htsvoice.tables(nogv), open(ntab, "w"))
    tp = record_stage(ctx, "header-edited", "c04-record", [ctx.seed + 1, 60 if q else 600], env={"JBV_VOICE": nogv})
    trace_stage(ctx, "voice-nogv", S("trace", "Trace_Voice.cfg"), S("trace", "Trace_Voice.tla"), tp,
                reset_ev="__none__", env={"TABLES": ntab}, xmx="8g",
                keyfn=lambda e, run: "nogv:%s:%s" % (e.get("ev"), e.get("model", e.get("key", ""))))
    os.remove(nogv)
    ctx.assumptions += [
        "bin/htsvoice.py (lexical tokenizer of the bundled file) and harness/src/voicegen.rs (token concatenation) are trusted",
        "labels: 16 real corpus lines (S->I); corpus lines and section-wise recombinations (I->S)",
        "window coefficients of the bundled voice are compared as text produced by Rust's {:?} formatting of f64",
    ]
    return ("model_checking",
            "S->I: every member of the TLC-enumerated voice family (states x streams x windows x stage x GV x tree shapes x "
            "quoting x PDF salts) rendered to bytes, loaded by load_htsvoice_file / Engine::load; every (model, state, label) "
            "selection, every PDF word bit, metadata, options, windows, engine defaults compared with the specification. "
            "I->S: selections of the bundled voice on random labels recomputed in TLA+ from the file's tokenized text",
            {"distinct_tree_pdf_pairs_selected": len(sel)})


# --------------------------------------------------------------------------- C08 / C09

def _dur_key(c):
    return json.dumps([c["kind"], c["m"], c["v"], c.get("p"), c.get("q"), c.get("times"), c.get("nstate")])


def check_C08(ctx):
    q = ctx.quick()
    mc(ctx, "Duration", S("mc", "MC_Duration_thorough.cfg"), S("mc", "MC_Duration.tla"), workers=12)
    cases = gen(ctx, "Duration_create", S("gen", "Gen_Duration_create.cfg" if q else "Gen_Duration_create_thorough.cfg"),
                S("gen", "Gen_Duration.tla"), workers=8)
    nties = sum(1 for c in cases if len(c["set"]) > 1)
    replay_stage(ctx, "create", "dur-replay", cases, distinct_key=_dur_key)
    ctx.stage("tie coverage", cases_with_several_allowed_results=nties)
    tp = record_stage(ctx, "durations", "dur-record", [ctx.seed, 150 if q else 15000, "speed"])
    trace_stage(ctx, "duration", S("trace", "Trace_Duration.cfg"), S("trace", "Trace_Duration.tla"), tp, reset_ev="pset")
    ctx.assumptions += ["S->I parameters are multiples of 1/4 (exact in f32/f64); speeds dyadic",
                        "I->S speeds are multiples of 1/1024 so that round(F1/speed) is decided exactly in TLA+; means logged in 1e-6 units"]
    return ("model_checking",
            "S->I: all parameter sequences of 1..3 states over the mean/variance tables x 10 speeds, result must be in the "
            "specification's result set (set-valued at exact ties); I->S: random sequences of 1..200 states and bundled-voice "
            "utterances, speeds in [0.1,50]: speed-1 law, exact-total law, one-frame floor, monotonicity along the speed sweep",
            {"cases_with_ties": nties})


def check_C09(ctx):
    q = ctx.quick()
    mc(ctx, "Align", S("mc", "MC_Align_quick.cfg" if q else "MC_Align.cfg"), S("mc", "MC_Align.tla"), workers=12)
    cases = gen(ctx, "Duration_align", S("gen", "Gen_Duration_align.cfg" if q else "Gen_Duration_align_thorough.cfg"),
                S("gen", "Gen_Duration.tla"), workers=8)
    replay_stage(ctx, "align", "dur-replay", cases, distinct_key=_dur_key)
    tp = record_stage(ctx, "alignments", "dur-record", [ctx.seed, 120 if q else 2500, "align"])
    trace_stage(ctx, "alignment", S("trace", "Trace_Duration.cfg"), S("trace", "Trace_Duration.tla"), tp, reset_ev="pset")
    ctx.assumptions += ["S->I times are multiples of 1/4 frame; I->S: candidate sets for round(end x rate/(fperiod x 1e7)) are computed by the harness in exact 128-bit rational arithmetic (trusted actuation function)"]
    return ("model_checking",
            "S->I: every annotation pattern of 0..3 labels x {1,2} states over start/end tables (incl. unknown, zero-length, "
            "non-monotone) through Labels::new + create_with_alignment, group-wise membership in the specification's result sets; "
            "I->S: corpus utterances with random string annotations through Labels::load_from_strings, the estimator and Engine::synthesize",
            {})


# --------------------------------------------------------------------------- C19 / C10

def perturbed_voices(ctx, n=3, kind="all"):
    import htsvoice
    out = [BUNDLED]
    for s in range(1, n + 1):
        p = ctx.path("perturbed_%s_%d.htsvoice" % (kind, s))
        htsvoice.perturb(BUNDLED, p, kind, s)
        out.append(p)
    return out


def _vs_cfg(ctx, mode, fams, nvoices, L=2):
    p = ctx.path("Gen_VoiceSet_%s_%s_%d.cfg" % (mode, fams, nvoices))
    open(p, "w").write('CONSTANTS Mode = "%s"  L = %d  Fams <- %s  Salts = {0}  NVoices = %d\n'
                       'SPECIFICATION Spec\nINVARIANTS Emit WeightsValid\nCHECK_DEADLOCK FALSE\n' % (mode, L, fams, nvoices))
    return p


def check_C19(ctx):
    q = ctx.quick()
    mc(ctx, "VoiceSet", S("mc", "MC_VoiceSet.cfg"), S("mc", "MC_VoiceSet.tla"), workers=8)
    tla = S("gen", "Gen_VoiceSet_defs.tla")
    lab = label_table_json(ctx)
    cases = gen(ctx, "compat", _vs_cfg(ctx, "compat", "FamsA" if q else "FamsB", 2), tla, workers=8)
    nerr = sum(1 for c in cases if c["kind"] == "compat" and not c["ok"]) + sum(sum(1 for x in c["cases"] if not x["ok"]) for c in cases if c["kind"] == "field")
    replay_stage(ctx, "compat", "vset-replay", cases, extra_args=[lab],
                 distinct_key=lambda c: ("field:" + json.dumps(c["voice"]["header"][:6])) if c["kind"] == "field" else
                 (json.dumps(c["kinds"]) + c["voices"][0]["header"][4] if c["voices"] else "empty"))
    if nerr == 0 or nerr == len(cases):
        raise ToolError("vacuous compatibility cases")
    for nv in ([2] if q else [2, 3]):
        cases = gen(ctx, "weights%d" % nv, _vs_cfg(ctx, "weights", "FamsW", nv, 2), tla, workers=8)
        replay_stage(ctx, "weights-nv%d" % nv, "vset-replay", cases, extra_args=[lab],
                     distinct_key=lambda c: json.dumps([(h["q"], h["s"], h["w"], h["tag"]) for h in c.get("hist", [])]))
    if not q:
        cases = gen(ctx, "weights-sim", _vs_cfg(ctx, "weights", "FamsW", 2, 6), tla, simulate=(1500, 8))
        replay_stage(ctx, "weights-sequences", "vset-replay", cases, extra_args=[lab])
    ctx.assumptions += ["weight vectors from a 15-entry candidate table (valid, wrong length, sum off by 1/8..1, +2e-6, NaN)",
                        "single-field variants are built by the specification from the voice family (nine fields of the property)"]
    return ("model_checking",
            "S->I: every list of 0..3 voices built from a base voice, a compatible sibling and nine single-field variants -> "
            "VoiceSet::new / Engine::load accept iff the specification's Compatible holds; every history of two weight updates "
            "(3 quantities x 3 streams x 15 candidates) with getters compared after each step and synthesis compared with a "
            "fresh engine given the effective weights",
            {"compat_cases_expected_err": nerr})


def check_C10(ctx):
    q = ctx.quick()
    mc(ctx, "VoiceSet", S("mc", "MC_VoiceSet.cfg"), S("mc", "MC_VoiceSet.tla"), workers=8)
    tla = S("gen", "Gen_VoiceSet_defs.tla")
    lab = label_table_json(ctx)
    for nv in ([2, 3] if q else [1, 2, 3]):
        cases = gen(ctx, "interp%d" % nv, _vs_cfg(ctx, "interp", "FamsA" if q else "FamsB", nv), tla, workers=8, timeout=3000)
        replay_stage(ctx, "interp-nv%d" % nv, "vset-replay", cases, extra_args=[lab],
                     distinct_key=lambda c: json.dumps(c["eff"]) + json.dumps(c["voices"][0]["header"][4:7]))
    voices = perturbed_voices(ctx, 3, "all")
    tp = record_stage(ctx, "bundled-mix", "vset-record", [ctx.seed, 60 if q else 1500], timeout=3000) if False else None
    tpath = ctx.path("bundled-mix.ndjson")
    p = run_jbv(["vset-record", ctx.seed, 60 if q else 1500, tpath] + voices, timeout=3000)
    if p.returncode != 0:
        log(p.stderr[-2000:])
        raise ToolError("vset-record failed")
    trace_stage(ctx, "interp", S("trace", "Trace_Interp.cfg"), S("trace", "Trace_Interp.tla"), tpath, reset_ev="__none__",
                keyfn=lambda e, run: "mix:%s:%s" % (e.get("ev"), e.get("q", "")))
    ctx.assumptions += ["S->I weights in eighths and PDF words dyadic: interpolation is exact in f64 and compared exactly",
                        "I->S: weights in 64ths, words quantised to 2^-12 (GV: 2^-18); tolerance = accumulated quantisation error",
                        "perturbed copies of the bundled voice written by bin/htsvoice.py (layout unchanged)"]
    return ("model_checking",
            "S->I: voice sets of 1..3 rendered voices with different trees and PDFs, independent weight vectors per quantity "
            "(vertices, negative and over-unity components): duration(), model_stream(s) stream/msd/gv/switch equal the exact "
            "weighted average of the specification's per-voice selections; I->S: bundled voice + 3 perturbed copies, random "
            "weights: weighted-average law on quantised words, vertex weights => bit-equal waveform, identical voices => <= 64 ulps",
            {})


# --------------------------------------------------------------------------- C18

def _faults_cfg(ctx, mode, depth, g, docs="{1, 2, 3}"):
    p = ctx.path("Gen_Faults_%s_%d_%d.cfg" % (mode, depth, g))
    open(p, "w").write('CONSTANTS Mode = "%s"  Depth = %d  G = %d  Docs = %s\nSPECIFICATION Spec\n'
                       'INVARIANTS Emit FaultsNonEmpty\nCHECK_DEADLOCK FALSE\n' % (mode, depth, g, docs))
    return p


def _dedup_faults(cases, prefix=()):
    seen, out = set(), list(prefix)
    for c in cases:
        k = "base%s" % c["id"] if c["kind"] == "base" else json.dumps(c, sort_keys=True)
        if k in seen:
            continue
        seen.add(k)
        out.append(c)
    out.sort(key=lambda c: 0 if c["kind"] in ("base", "filebase") else 1)
    return out


def _c18_key(r):
    import re
    key = r.get("key", "")
    m = re.search(r"^(\w+):(.*?)( @ (\S+))?$", key)
    if m and m.group(1) == "abort":
        return "abort:" + re.sub(r"\d+", "N", key)[:120]
    return key


def c18_stage(ctx, name, cases, timeout=7200):
    cpath = ctx.path(name + ".cases.jsonl")
    rpath = ctx.path(name + ".results.jsonl")
    write_jsonl(cpath, cases)
    p = run_jbv(["c18-run", cpath, rpath], timeout=timeout)
    if p.returncode != 0:
        log(p.stderr[-3000:])
        raise ToolError("c18-run failed")
    rows = read_jsonl(rpath)
    summary = rows[-1]["summary"]
    for r in rows[:-1]:
        ctx.violation(_c18_key(r), "%s: %s  faults=%s" % (name, r["msg"], json.dumps(r["input"]["ops"])[:300]), r)
    nf = summary["cases"]
    ctx.traces += nf
    ctx.evaluations += nf
    for c in cases:
        if c["kind"] == "fault":
            ctx.distinct.add(json.dumps(c, sort_keys=True)[:500])
    faults = [c for c in cases if c["kind"] == "fault"]
    if faults:
        ctx.sample({"stage": name, "fault": faults[len(faults) // 3]})
    ctx.stage("FAULTS " + name, **summary)
    if summary["voice"] + summary["error"] + summary["engine_error"] == 0 and nf > 0:
        raise ToolError("no faulted file was handled at all")
    return summary


def check_C18(ctx):
    q = ctx.quick()
    tla = S("gen", "Gen_Faults.tla")
    import htsvoice
    # rendered base documents: all single faults (BFS), sampled double faults (-simulate)
    cases = gen(ctx, "faults-doc-single", _faults_cfg(ctx, "doc", 1, 3 if q else 8), tla, workers=4)
    c18_stage(ctx, "rendered-single", _dedup_faults(cases))
    cfg2 = _faults_cfg(ctx, "doc", 2, 3 if q else 8)
    cases = gen(ctx, "faults-doc-double", cfg2, tla, simulate=(150 if q else 2500, 5), sim_workers=1 if q else 8, timeout=3000)
    c18_stage(ctx, "rendered-double", _dedup_faults(cases))
    # the bundled voice, described by the tokenizer
    bpath = ctx.path("bundled_base.json")
    json.dump(htsvoice.fault_base(BUNDLED), open(bpath, "w"))
    fb = [{"kind": "filebase", "id": 0, "path": BUNDLED}]
    cases = gen(ctx, "faults-file-single", _faults_cfg(ctx, "file", 1, 2 if q else 12, "{1}"), tla, workers=4,
                env={"BASE": bpath}, timeout=3000)
    for c in cases:
        if c["kind"] == "fault":
            c["base"] = 0
    if q:
        faults = [c for c in cases if c["kind"] == "fault"]
        step = max(1, len(faults) // 700)
        # (the handful of cycle-closing reference faults is always kept)
        refs = set(json.load(open(bpath))["refs"])
        cases = faults[::step] + [c for c in faults if any(o.get("op") == "flip" and o.get("ch") == "0" and o.get("at") in refs for o in c["ops"])]
        ctx.exhaustive = False
    c18_stage(ctx, "bundled-single", _dedup_faults(cases, fb))
    if not q:
        cases = gen(ctx, "faults-file-double", _faults_cfg(ctx, "file", 2, 4, "{1}"), tla, workers=8, env={"BASE": bpath},
                    simulate=(250, 5), sim_workers=8, timeout=3000)
        for c in cases:
            if c["kind"] == "fault":
                c["base"] = 0
        c18_stage(ctx, "bundled-double", _dedup_faults(cases, fb))
    ctx.assumptions += ["each faulted file is loaded (load_htsvoice_file, then Engine::load) in a worker subprocess with ulimit -v 2 GiB and a 20 s watchdog",
                        "only 'voice' or 'error' outcomes are accepted; nothing else is demanded of a faulted file",
                        "harness builds with overflow-checks on, so arithmetic overflow in the loader is observed as a panic"]
    ctx.trusted += ["harness/src/c18.rs fault application (mechanical) and subprocess watchdog", "bin/htsvoice.py fault_base"]
    return ("fault_enumeration",
            "faults enumerated by TLC from spec/Faults.tla over 3 rendered voices and the bundled voice: every header value x "
            "replacement class, line deletion/duplication, offset swaps, truncation at every section boundary +-1, byte flips on a "
            "grid in every text section, token drops / count changes / tree-text defects; all single faults (BFS), sampled "
            "double faults (-simulate); distinct = distinct fault lists",
            {})


# --------------------------------------------------------------------------- C01

def check_C01(ctx):
    q = ctx.quick()
    lab = label_table_json(ctx)
    # MC: the composition laws are evaluated on every generated case inside Gen_Pipeline (FrameExact, AllStatesPresent,
    # EmptyIsEmpty) on top of the Duration / Voice invariants checked here
    mc(ctx, "Duration", S("mc", "MC_Duration.cfg"), S("mc", "MC_Duration.tla"), workers=8)
    cases = gen(ctx, "Pipeline", S("gen", "Gen_Pipeline.cfg" if q else "Gen_Pipeline_thorough.cfg"), S("gen", "Gen_Pipeline.tla"),
                workers=12, timeout=6000)
    runs = [c for c in cases if c["kind"] == "run"]
    replay_stage(ctx, "rendered-voices", "c01-replay", cases, extra_args=[lab], timeout=7200,
                 distinct_key=lambda c: json.dumps([c.get("fam"), c.get("labels"), c.get("cond", {}).get("p"), c.get("cond", {}).get("align"), c.get("cond", {}).get("thr8")]))
    cfgs = set((c["fam"]["nstream"], c["fam"]["stage"] > 0, c["fam"]["gv"], c["fam"]["nstate"]) for c in runs)
    ctx.stage("configuration coverage", streams_x_lsp_x_gv_x_nstate=len(cfgs), runs=len(runs),
              multi_result_cases=sum(1 for c in runs if not c["unique"]))
    # the LSP path with the formant postfilter (vocoder level): clustered line spectral pairs inside the stable range
    lcases, levs = _spectral(ctx, "lspbeta", "lspfin", lambda e, run: "lspfin:%s" % ("nonfinite" if not e.get("finite") else "growth"))
    nb = sum(1 for e in levs if e.get("ev") == "lspfin" and e.get("beta8", 0) > 0)
    if nb == 0:
        raise ToolError("vacuous LSP postfilter stage")
    ctx.stage("LSP postfilter finiteness", events=len(levs), with_beta=nb)
    voices = perturbed_voices(ctx, 1 if q else 3, "all")
    tpath = ctx.path("bundled.ndjson")
    p = run_jbv(["c01-record", ctx.seed, 150 if q else 5000, 12 if q else 60, tpath] + voices, timeout=7200)
    if p.returncode != 0:
        log(p.stderr[-2000:])
        raise ToolError("c01-record failed")
    trace_stage(ctx, "synth", S("trace", "Trace_Laws.cfg"), S("trace", "Trace_Laws.tla"), tpath, reset_ev="__none__",
                keyfn=lambda e, run: "bundled:%s:%s:%s" % (e.get("ev"), e.get("outcome", "")[:60], "nonfinite" if e.get("nf", -1) >= 0 else "law"))
    ctx.assumptions += [
        "stable range is recognised through the sufficient condition 1.05 (1+beta) max_theta |sum_{m>=1} c_m cos(m theta)| <= 4 on a 129-point grid "
        "(trusted measurement on the hooked trajectories); on the bundled voice this is almost never satisfied, so there the finiteness clause is "
        "enforced as 'a non-finite sample only after growth >= 1e100'; generated voices are inside the range by construction and must be finite",
        "labels: corpus lines, shuffles and section-wise recombinations; structurally random labels for the no-panic clause",
    ]
    return ("model_checking",
            "S->I: voice family {2,3 streams} x {mel-cepstral, LSP stage 1-2} x nstate x window sets x GV x tree shapes, 0..3 labels, "
            "8 conditions (speeds, alignment marks, thresholds, beta, half tone, volume, GV weights, fperiod/rate overrides, 4 input forms): "
            "outcome ok, exact length fperiod x F, finite, durations in the specification's set, voicing mask of the hooked log-F0 trajectory; "
            "I->S: bundled voice + perturbed copies, random utterances and in-envelope conditions validated against Trace_Laws!SynthLaw",
            {"voice_configurations": len(cfgs)})


# --------------------------------------------------------------------------- C06 / C13 / C14 (vocoder-level spectra)

def _spectral(ctx, mode, evname, keyfn):
    q = ctx.quick()
    mc(ctx, "SpectralGrid", S("mc", "MC_SpectralGrid.cfg"), S("mc", "MC_SpectralGrid.tla"), workers=8)
    cases = gen(ctx, "Spectral_" + mode, S("gen", "Gen_Spectral_%s%s.cfg" % (mode, "" if q else "_thorough")),
                S("gen", "Gen_Spectral_defs.tla"), workers=8, timeout=3000)
    if q and len(cases) > 2500:
        cases = cases[::max(1, len(cases) // 2500)]
        ctx.exhaustive = False
    cpath = ctx.path(mode + ".cases.jsonl")
    tpath = ctx.path(mode + ".ndjson")
    write_jsonl(cpath, cases)
    p = run_jbv(["spectral-run", cpath, tpath], timeout=7200)
    if p.returncode != 0:
        log(p.stderr[-2000:])
        raise ToolError("spectral-run failed")
    trace_stage(ctx, mode, S("trace", "Trace_Spectral.cfg"), S("trace", "Trace_Spectral.tla"), tpath, reset_ev="__none__", keyfn=keyfn,
                timeout=7200)
    ctx.trusted += ["measurement: dft_logmag, energy; actuation: unwarp (all-pass phase inverse), acos; pulse located with an all-zero-spectrum twin run"]
    return cases, read_jsonl(tpath)


def check_C06(ctx):
    cases, evs = _spectral(ctx, "mcep", "grid", lambda e, run: "grid:order%s:alpha%s" % (len(e.get("c64", [])), e.get("alpha")))
    worst = 0
    ctx.assumptions += ["33 frequencies with rational warped cosine k/16 (not every frequency); cepstra in 1/64 with sum_{m>=1}|c_m| <= 2 "
                        "(precondition at all frequencies); tolerance 0.01 neper + 1.6e-3 fixed-point budget"]
    return ("model_checking",
            "TLC enumerates vector lengths x warping constants x rates x pseudo-random cepstra (uniform and speech-like profiles); "
            "the public Vocoder's pulse response (third 20 Hz period) is measured at 33 exact-cosine frequencies and TLC evaluates "
            "|ln|H| - sum_m c_m T_m(x)| <= tol with the reference computed in 2^-20 fixed point in the specification",
            {"orders": sorted(set(len(c["c64"]) for c in cases))})


def check_C14(ctx):
    cases, evs = _spectral(ctx, "post", "post", lambda e, run: "post:%s" % ("energy" if abs(e.get("eratio_ppm", 10 ** 6) - 10 ** 6) > 10000 else "shape"))
    r = [e["eratio_ppm"] for e in evs if e.get("ev") == "post"]
    ctx.stage("energy ratio range (ppm)", lo=min(r), hi=max(r))
    ctx.assumptions += ["as C06; beta in {1/8, 1/4, 1/2}; (1+beta) sum|c_m| <= 2; difference law relative to the grid point x = 0 so the c_0 shift cancels"]
    return ("model_checking",
            "as C06 with beta > 0 vs beta = 0: spectral difference law beta sum_{m>=2} c_m (T_m(x_k) - T_m(0)) (order 1 unchanged), "
            "energy ratio of the two pulse responses within 1 %, vector length 2 => bit-equal, beta must influence the output",
            {"energy_ratio_ppm_range": [min(r), max(r)]})


def check_C13(ctx):
    cases, evs = _spectral(ctx, "lsp", "lsp", lambda e, run: "lsp:%s" % ("diverges" if not (e.get("finite") and e.get("decay")) else "spectrum"))
    pts = sum(sum(1 for rr in e["rel"] if rr <= 11513 and rr <= e["noise"] - 8000) for e in evs if e.get("ev") == "lsp")
    tot = sum(sum(1 for rr in e["rel"] if rr <= 11513) for e in evs if e.get("ev") == "lsp")
    ctx.stage("measurable grid points", checked=pts, within_100dB=tot)
    if pts * 2 < tot:
        raise ToolError("LSP law vacuous: too few measurable points")
    ctx.assumptions += ["orders 2..8 only (exact |A|^2 must fit 32-bit integers), cosines in eighths, grid x in {-1,-3/4,..,1}; "
                        "points closer than 8 nepers to the truncation floor of the one-period measurement are not judged",
                        "the harness applies ln to the specification's exact integer N (|A|^2 = N / 4^(m+2)) - the single place where a reference passes through harness arithmetic"]
    return ("model_checking",
            "TLC enumerates LSP sets (cosines k/8, spacing precondition enforced in the specification), stages, warping, rates, linear/log gain and "
            "computes |A|^2 exactly from a closed form that MC_SpectralGrid checks against polynomial multiplication; measured ln|H| must be "
            "within 0.001 neper of ln K - (s/2) ln|A|^2 within 100 dB of the peak; response finite and decaying",
            {"measurable_points": pts})


# --------------------------------------------------------------------------- Engine-level: C03, C11, C15, C16, C17

PROBE = os.path.join(VERIF, "probe")
PROBE_BIN = os.path.join(HARNESS, "target", "probe", "release", "probe")


def must_violate(ctx, name, cfg, tla, inv):
    """Non-vacuity: a deliberately wrong design must be caught by TLC."""
    r = run_tlc(ctx, "nv_" + name, cfg, tla, workers=4, bfs=True, timeout=600)
    if r.invariant != inv:
        log(r.out[-1500:])
        raise ToolError("non-vacuity check %s: TLC did not report a violation of %s" % (name, inv))
    ctx.stage("NON-VACUITY " + name, violated=inv, states=r.distinct)
    ctx.states += r.distinct
    ctx.transitions += r.generated


def engine_histories(ctx, n, depth, voice, tag, seed_off=0):
    cfgp = ctx.path("Gen_Engine_%s.cfg" % tag)
    open(cfgp, "w").write(open(S("gen", "Gen_Engine.cfg")).read().replace("L = 24", "L = %d" % depth))
    saved = ctx.seed
    ctx.seed = saved + seed_off
    cases = gen(ctx, "Engine_" + tag, cfgp, S("gen", "Gen_Engine.tla"), simulate=(n, depth + 2))
    ctx.seed = saved
    return replay_stage(ctx, "api-histories-" + tag, "engine-replay", cases, extra_args=[voice], timeout=7200,
                        distinct_key=lambda c: json.dumps([(h["act"], h.get("e"), h.get("field"), h.get("s"), h.get("v"), h.get("u"), h.get("g")) for h in c["hist"]]))


def render_family_voice(ctx, tag, consts, pred):
    """Render one member of the voice family (constants of Gen_Voice, predicate on `fam`) to a file in the work directory."""
    cfgp = ctx.path("Gen_Voice_%s.cfg" % tag)
    open(cfgp, "w").write("CONSTANTS %s\nSPECIFICATION Spec\nINVARIANT Emit\nCHECK_DEADLOCK FALSE\n" % consts)
    cases = gen(ctx, "Voice_" + tag, cfgp, S("gen", "Gen_Voice.tla"), workers=2)
    pick = [c for c in cases if pred(c["fam"])][0]
    cpath = ctx.path("%s_voice.json" % tag)
    json.dump(pick["voice"], open(cpath, "w"))
    vpath = ctx.path("rendered_%s.htsvoice" % tag)
    p = run_jbv(["render", cpath, vpath])
    if p.returncode != 0:
        raise ToolError("render failed: " + p.stderr[-500:])
    return vpath


def rendered_voice_file(ctx):
    """One member of the voice family (3 streams, GV on MCP and LF0) written to the work directory."""
    cfgp = ctx.path("Gen_Voice_one.cfg")
    open(cfgp, "w").write("CONSTANTS NStates = {2}  Shapes = {2}  Salts = {0}  Stages = {0}  WinSets = {3}\nSPECIFICATION Spec\nINVARIANT Emit\nCHECK_DEADLOCK FALSE\n")
    cases = gen(ctx, "Voice_one", cfgp, S("gen", "Gen_Voice.tla"), workers=2)
    pick = [c for c in cases if c["fam"]["nstream"] == 3 and c["fam"]["gv"] and c["fam"]["quoted"]][0]
    cpath = ctx.path("one_voice.json")
    json.dump(pick["voice"], open(cpath, "w"))
    vpath = ctx.path("rendered.htsvoice")
    p = run_jbv(["render", cpath, vpath])
    if p.returncode != 0:
        raise ToolError("render failed: " + p.stderr[-500:])
    return vpath


def check_C03(ctx):
    q = ctx.quick()
    mc(ctx, "Engine", S("mc", "MC_Engine.cfg"), S("mc", "MC_Engine.tla"), workers=8)
    # two live generators on one engine: driving one never moves the other (GenIndependent is vacuous with one)
    mc(ctx, "EngineGens", S("mc", "MC_Engine_gens.cfg"), S("mc", "MC_Engine.tla"), workers=8)
    mc(ctx, "EngineConc", S("mc", "MC_EngineConc.cfg"), S("mc", "MC_EngineConc.tla"), workers=8)
    # progress without locks: under per-thread fairness every started call returns, steps touch one thread's private state only
    mc(ctx, "EngineConcLive", S("mc", "MC_EngineConc_live.cfg"), S("mc", "MC_EngineConc.tla"), workers=8)
    must_violate(ctx, "Engine(Hidden)", S("mc", "MC_Engine_hidden.cfg"), S("mc", "MC_Engine.tla"), "Deterministic")
    must_violate(ctx, "EngineConc(Hidden)", S("mc", "MC_EngineConc_hidden.cfg"), S("mc", "MC_EngineConc.tla"), "Deterministic")
    engine_histories(ctx, 60 if q else 1200, 24, BUNDLED, "bundled")
    engine_histories(ctx, 60 if q else 1200, 24, rendered_voice_file(ctx), "rendered", seed_off=1)
    # a voice set of three (the bundled voice and two perturbed copies): the interpolation weights are condition values with setters, too
    engine_histories(ctx, 40 if q else 600, 24, ",".join(perturbed_voices(ctx, 2, "all")), "triple", seed_off=2)
    # the probe: compile-time Send + Sync, then k threads on one shared engine
    env = dict(os.environ); env["CARGO_NET_OFFLINE"] = "true"
    p = subprocess.run(["cargo", "build", "--release", "--quiet"], cwd=PROBE, env=env, stdout=subprocess.PIPE, stderr=subprocess.STDOUT, text=True)
    if p.returncode != 0:
        if "Send" in p.stdout or "Sync" in p.stdout or "cannot be shared between threads" in p.stdout or "cannot be sent between threads" in p.stdout:
            ctx.violation("probe:send-sync", "the thread-safety probe does not compile while the harness does: " + p.stdout[-600:], {"compiler_output": p.stdout[-3000:]})
        else:
            log(p.stdout[-3000:])
            raise ToolError("probe build failed for another reason")
    else:
        tpath = ctx.path("conc.ndjson")
        r = subprocess.run([PROBE_BIN, str(ctx.seed), str(16 if q else 400), tpath, BUNDLED], stdout=subprocess.PIPE, stderr=subprocess.PIPE, text=True, timeout=7200)
        if r.returncode != 0:
            log(r.stderr[-2000:])
            raise ToolError("probe run failed")
        trace_stage(ctx, "threads", S("trace", "Trace_Conc.cfg"), S("trace", "Trace_Conc.tla"), tpath, reset_ev="snap",
                    keyfn=lambda e, run: "conc:%s" % ("panic" if e.get("dg") == "panic" else "determinism-or-settings"))
    unsafe = subprocess.run("grep -rn 'unsafe' /repo/src --include=*.rs | grep -v fir_simd | wc -l", shell=True, stdout=subprocess.PIPE, text=True).stdout.strip()
    ctx.assumptions += ["memory-level data races that never change an output are invisible to trace validation; occurrences of `unsafe` in /repo/src outside the nightly-only simd file: %s" % unsafe,
                        "condition fields take two abstract values each (default / one alternative) in the API histories"]
    return ("model_checking",
            "MC: Engine machine (determinism, call purity, setter locality, frozen generators) and EngineConc (all interleavings of 3 threads); "
            "both with Hidden=TRUE must produce a counterexample.  S->I: TLC -simulate API histories (setters, clones, syntheses, two "
            "interleaved live generators, 8 utterance forms) replayed on the bundled and a rendered voice with every artefact compared per content key, "
            "tables merged across histories.  I->S: 2..16 threads on one Arc<Engine>, validated against Trace_Conc",
            {})


def _engine_only(ctx, what):
    q = ctx.quick()
    mc(ctx, "Deps", S("mc", "MC_Deps.cfg"), S("mc", "MC_Deps.tla"), workers=8)
    engine_histories(ctx, 80 if q else 1500, 24, BUNDLED, "bundled")
    engine_histories(ctx, 80 if q else 1500, 24, rendered_voice_file(ctx), "rendered", seed_off=1)


def laws_stage(ctx, mode, n, voices, name=None, keyfn=None, reset_ev="__none__"):
    tpath = ctx.path("%s.ndjson" % (name or mode))
    p = run_jbv(["laws-record", mode, ctx.seed, n, tpath] + voices, timeout=7200)
    if p.returncode != 0:
        log(p.stderr[-2000:])
        raise ToolError("laws-record %s failed" % mode)
    trace_stage(ctx, name or mode, S("trace", "Trace_Laws.cfg"), S("trace", "Trace_Laws.tla"), tpath, reset_ev=reset_ev, keyfn=keyfn, timeout=7200)
    return read_jsonl(tpath)


def check_C11(ctx):
    q = ctx.quick()
    _engine_only(ctx, "C11")
    lab = label_table_json(ctx)
    cases = gen(ctx, "Pipeline_thr", S("gen", "Gen_Pipeline_thr_quick.cfg" if q else "Gen_Pipeline_thr.cfg"), S("gen", "Gen_Pipeline.tla"), workers=12, timeout=3000)
    runs = [c for c in cases if c["kind"] == "run" and c["unique"]]
    mixed = sum(1 for c in runs if any(c["mask"]) and not all(c["mask"]))
    replay_stage(ctx, "threshold-sweep", "c01-replay", cases, extra_args=[lab], timeout=7200,
                 distinct_key=lambda c: json.dumps([c.get("fam"), c.get("labels"), c.get("cond", {}).get("thr8")]))
    ctx.stage("mask coverage", runs=len(runs), partly_voiced=mixed)
    if mixed == 0:
        raise ToolError("vacuous threshold sweep")
    evs = laws_stage(ctx, "voicing", 30 if q else 400, perturbed_voices(ctx, 2, "msd"), keyfn=lambda e, run: "voicing:%s" % e.get("ev"))
    ctx.assumptions += ["thresholds in the trace direction are f32-representable (k/1024, a state's voicing weight, or one f32 ulp around it) so that "
                        "'exceeds' is decided exactly on bit patterns in TLA+; rendered voices use voicing weights 1/8..7/8 and thresholds 0..8 eighths"]
    return ("model_checking",
            "MC: dependency-map isolation laws over all conditions (MC_Deps). S->I: rendered voices x all 9 thresholds k/8 incl. values equal to a "
            "voicing weight: NODATA pattern of the hooked log-F0 trajectory equals the specification's strict-comparison mask; API histories: "
            "trajectories with equal keys bit-equal (a stream's threshold / GV weight is not in another stream's key). I->S: bundled and "
            "voicing-perturbed voices, ascending threshold sweeps: voiced iff msd_bits > thr_bits, monotone, other streams' digests unchanged",
            {"partly_voiced_runs": mixed})


def check_C15(ctx):
    q = ctx.quick()
    _engine_only(ctx, "C15")
    evs = laws_stage(ctx, "halftone", 12 if q else 400, perturbed_voices(ctx, 2, "all"), keyfn=lambda e, run: "halftone:%s" % ("shift" if e.get("diffs") else "isolation"))
    n = sum(len(e.get("diffs", [])) for e in evs)
    ctx.assumptions += ["h is a multiple of 1/8 in [-24,24] so the expected shift is an integer number of nano-units in TLA+ (7220283 per eighth, tolerance 3+|h8| nano)",
                        "whether a state mean reaches the 20 Hz..20 kHz limit is decided by the harness from Models::model_stream(1) (then only the one-sided bound is demanded)"]
    return ("model_checking",
            "MC_Deps: the half tone appears only in the log-F0 trajectory key; API histories check that on the code. I->S: bundled/perturbed voices with GV on, "
            "random in-envelope conditions, h in eighths: per voiced frame lf0_h - lf0_0 = h ln2/12 (nano-units), durations, NODATA pattern, spectrum and "
            "low-pass trajectory digests and length unchanged; h = 0 identity",
            {"voiced_frames_compared": n})


def check_C16(ctx):
    q = ctx.quick()
    _engine_only(ctx, "C16")
    # both filter families, with and without a low-pass stream (a two-stream voice takes other excitation paths)
    two = lambda tag, stage, salt: render_family_voice(ctx, tag, "NStates = {2}  Shapes = {3}  Salts = {%d}  Stages = {%d}  WinSets = {3}" % (salt, stage),
                                                       lambda f: f["nstream"] == 2 and not f["gv"] and not f["quoted"])
    voices = perturbed_voices(ctx, 1, "all") + [rendered_lsp_voice(ctx, 1), rendered_lsp_voice(ctx, 2), two("mcp2s", 0, 0), two("lsp2s", 2, 2)]
    evs = laws_stage(ctx, "gain", 30 if q else 600, voices, keyfn=lambda e, run: "gain:%s" % e.get("ev"))
    ctx.assumptions += ["gain measured at the largest-magnitude sample of the 0 dB waveform; law stated in dB so 10^(v/20) is never computed outside jbonsai"]
    return ("model_checking",
            "MC_Deps: the volume is in no duration / trajectory / shape key. I->S: mel-cepstral (bundled, perturbed) and LSP (rendered) voices, v in [-60,60] dB: "
            "measured gain within 20 micro-dB of v, every sample equal to ratio x the 0 dB sample within 1e-6, get_volume within 1e-7 dB, trajectories and length unchanged",
            {})


def rendered_lsp_voice(ctx, salt=1):
    """LSP voice of the family: salt 1 -> LN_GAIN=1 (log gain), salt 2 -> LN_GAIN=0 (linear gain)."""
    return render_family_voice(ctx, "lsp%d" % salt, "NStates = {2}  Shapes = {3}  Salts = {%d}  Stages = {2}  WinSets = {3}" % salt,
                               lambda f: f["nstream"] == 3 and not f["gv"] and not f["quoted"])


def check_C12(ctx):
    q = ctx.quick()
    _engine_only(ctx, "C12")
    evs = laws_stage(ctx, "gv", 8 if q else 250, perturbed_voices(ctx, 2, "all"), keyfn=lambda e, run: "gv:%s" % e.get("ev"))
    g = [e for e in evs if e.get("ev") == "gv"]
    big = [e for e in g if e["eligible"] >= 100]
    if not big:
        raise ToolError("vacuous GV law: no sweep with >= 100 eligible frames")
    worst = max(abs(e["ratio_ppm"] - 250000 * e["wq"]) / (2500.0 * e["wq"]) for e in big)
    ctx.stage("GV law margin", events=len(g), with_100_eligible=len(big), worst_deviation_percent=round(worst, 2))
    ctx.assumptions += ["variance measured over voiced frames of labels outside the GV-off contexts (public switch + NODATA of the hooked trajectory); ratio var/gv_mean logged in ppm"]
    return ("model_checking",
            "MC_Deps: a stream without GV has no GV weight in its key (checked on the code by the API histories). I->S: utterances of 10..60 corpus labels on bundled / perturbed voices, "
            "weights 1/4..2 per GV stream and coefficient: variance over eligible frames within 20 % of weight x GV mean when >= 100 frames are eligible, strictly increasing "
            "along the sweep; silence-only utterance equals the ML trajectory; non-GV stream unaffected",
            {"worst_deviation_percent": round(worst, 2)})


# --------------------------------------------------------------------------- C17

def label_oracle(ctx):
    import re
    s = open(S("LabelLine.tla")).read()
    labs = json.load(open(label_table_json(ctx)))
    tt = re.search(r"TimeTokens == <<(.*?)>>", s, re.S).group(1)
    times = re.findall(r'"([^"]*)"', tt)
    lt = re.search(r"LabelTokens == <<(.*?)>>", s, re.S).group(1)
    toks = []
    for part in lt.split(","):
        part = part.strip()
        m = re.fullmatch(r'LabelTable\[(\d+)\](\s*\\o\s*"([^"]*)")?', part)
        if m:
            toks.append(labs[int(m.group(1)) - 1] + (m.group(3) or ""))
        else:
            toks.append(re.fullmatch(r'"([^"]*)"', part).group(1))
    tp = ctx.path("label_tokens.json")
    json.dump({"time": times, "label": toks}, open(tp, "w"))
    op = ctx.path("label_oracle.json")
    p = run_jbv(["label-oracle", tp, op])
    if p.returncode != 0:
        raise ToolError("label-oracle failed")
    o = json.load(open(op))
    if not o["extra_rejected"]:
        raise ToolError("oracle: jlabel accepts a label followed by ' extra' - the TTLX shape would need another expectation")
    return op


def check_C17(ctx):
    q = ctx.quick()
    mc(ctx, "Deps", S("mc", "MC_Deps.cfg"), S("mc", "MC_Deps.tla"), workers=8)
    engine_histories(ctx, 60 if q else 1000, 24, BUNDLED, "bundled")
    op = label_oracle(ctx)
    cases = gen(ctx, "LabelLine", S("gen", "Gen_LabelLine.cfg" if q else "Gen_LabelLine_thorough.cfg"), S("gen", "Gen_LabelLine.tla"),
                workers=8, env={"ORACLE": op}, timeout=3000)
    nerr = sum(1 for c in cases if c["expect"]["kind"] == "err")
    replay_stage(ctx, "label-text", "c17-replay", cases, extra_args=[BUNDLED], timeout=7200,
                 distinct_key=lambda c: json.dumps([c["form"], c["text"]]))
    if nerr == 0 or nerr == len(cases):
        raise ToolError("vacuous label-line cases")
    tp = record_stage(ctx, "corruptions", "c17-record", [ctx.seed, 400 if q else 20000], timeout=7200) if False else None
    up = record_stage(ctx, "time-units", "dur-record", [ctx.seed, 150 if q else 4000, "units"])
    trace_stage(ctx, "time-units", S("trace", "Trace_Duration.cfg"), S("trace", "Trace_Duration.tla"), up, reset_ev="__none__",
                keyfn=lambda e, run: "units:%s" % e.get("ev"))
    tpath = ctx.path("corruptions.ndjson")
    p = run_jbv(["c17-record", ctx.seed, 720 if q else 20000, tpath, BUNDLED], timeout=7200)
    if p.returncode != 0:
        raise ToolError("c17-record failed")
    trace_stage(ctx, "corruptions", S("trace", "Trace_Laws.cfg"), S("trace", "Trace_Laws.tla"), tpath, reset_ev="__none__",
                keyfn=lambda e, run: "corrupt:%s" % e.get("outcome", "")[:80])
    ctx.assumptions += ["'parsable' is what str::parse::<f64> and jlabel accept (oracles exported by `jbv label-oracle`, sanity-checked in the specification)",
                        "alignment is off in the error cases (times such as inf / NaN under alignment are outside C17 and C09)"]
    return ("model_checking",
            "MC_Deps: input form and (without alignment) time stamps are in no content key; API histories check that over 8 utterance forms. S->I: every utterance of "
            "<= 2 lines over 10 line shapes x time tokens x label tokens x {slice, vec, array}: outcome ok/err as LabelLine!Classify says, ok waveforms bit-equal to the "
            "parsed-label form, never a panic. I->S: random corruptions of corpus lines (deletion, duplication, unicode, truncation, huge/negative/NaN times, extra spaces)",
            {"expected_err_cases": nerr})


# --------------------------------------------------------------------------- C05

def check_C05(ctx):
    q = ctx.quick()
    cases = gen(ctx, "Mlpg", S("gen", "Gen_Mlpg.cfg" if q else "Gen_Mlpg_thorough.cfg"), S("gen", "Gen_Mlpg.tla"), workers=8, timeout=3000)
    cpath = ctx.path("mlpg.cases.jsonl"); tpath = ctx.path("mlpg.small.ndjson")
    write_jsonl(cpath, cases)
    p = run_jbv(["mlpg-run", cpath, tpath], timeout=3600)
    if p.returncode != 0:
        raise ToolError("mlpg-run failed: " + p.stderr[-500:])
    key = lambda e, run: "mlpg:%s" % ("panic" if e.get("ev") == "panic" else ("nonfinite" if not e.get("finite", True) else "normal-equations"))
    trace_stage(ctx, "small-instances", S("trace", "Trace_Mlpg.cfg"), S("trace", "Trace_Mlpg.tla"), tpath, reset_ev="__none__", keyfn=key, timeout=7200)
    t2 = ctx.path("mlpg.random.ndjson")
    p = run_jbv(["mlpg-record", ctx.seed, 150 if q else 3000, 20 if q else 60, t2], timeout=3600)
    if p.returncode != 0:
        raise ToolError("mlpg-record failed")
    trace_stage(ctx, "random-instances", S("trace", "Trace_Mlpg.cfg"), S("trace", "Trace_Mlpg.tla"), t2, reset_ev="__none__", keyfn=key, timeout=7200)
    evs = read_jsonl(t2)
    ctx.stage("instance coverage", islands=sum(1 for e in evs if any(e.get("nodata", [])) and not all(e.get("nodata", [True]))),
              all_unvoiced=sum(1 for e in evs if e.get("nodata") and all(e["nodata"])), width5=sum(1 for e in evs if any(len(w) == 5 for w in e.get("wins", []))))
    ctx.assumptions += ["means in eighths, variances powers of two in [1/4, 4], window coefficients in eighths: the normal equations are exact integers; "
                        "trajectory logged at 1e-6 in two limbs, tolerance = quantisation error of the row (L1/2 + L1/1000 + 2)",
                        "R is symmetric positive definite (structure invariants checked by TLC on the small instances), so zero residual is the maximiser"]
    return ("model_checking",
            "Mlpg.tla is the definition (mask, boundary distances, dropped dynamic observations, voiced-only neighbours, R = W'PW, r = W'P mu). TLC enumerates small "
            "instances (<= 3-4 states, durations <= 2-3, every voicing pattern, four window sets incl. width 5) and checks R symmetric / positive diagonal / islands "
            "decoupled; the real MlpgAdjust::create output of each, and of random instances with 1..60 states, durations 1..8, vector length 1..4, must satisfy "
            "|R c - r| <= tol row by row and carry the no-data marker exactly on unvoiced frames",
            {})


# --------------------------------------------------------------------------- C07

def check_C07(ctx):
    q = ctx.quick()
    mc(ctx, "Excitation", S("mc", "MC_Excitation.cfg" if q else "MC_Excitation_thorough.cfg"), S("mc", "MC_Excitation.tla"), workers=8)
    counts = {}
    for mode, n in (("exact", 150 if q else 20000), ("pitch", 60 if q else 10000), ("noise", 8 if q else 120), ("mixed", 40 if q else 5000)):
        tpath = ctx.path("exc_%s.ndjson" % mode)
        p = run_jbv(["exc-record", mode, ctx.seed, n, tpath], timeout=3600)
        if p.returncode != 0:
            raise ToolError("exc-record %s failed: %s" % (mode, p.stderr[-400:]))
        trace_stage(ctx, mode, S("trace", "Trace_Excitation.cfg"), S("trace", "Trace_Excitation.tla"), tpath,
                    reset_ev="reset" if mode == "exact" else "__none__", keyfn=lambda e, run, mode=mode: "excitation:%s:%s" % (mode, e.get("ev")), timeout=7200)
        counts[mode] = n
    ctx.assumptions += ["the filter is the identity for an all-zero spectrum (stage 0), so the Vocoder output is the excitation itself",
                        "exact runs use periods P/Q (Q in {1,2,4}) and small frame periods so that the machine is followed in integers; ties branch",
                        "noise: deterministic generator (fixed seed); bands |mean| <= 0.02, |var - 1| <= 0.03, |lag 1..5| <= 0.02 on >= 1e5 samples",
                        "mixed excitation: pulses and noise taken from twin runs of the same vocoder without low-pass taps (voiced / unvoiced), all quantised to 2^-12"]
    return ("model_checking",
            "MC: pitch machine over all frame sequences of a small period set: impulse spacing floor/ceil(T0), one impulse per T0, linear glide reaching its target, "
            "restart after unvoiced frames.  I->S: (a) exact runs validated sample by sample against the machine (hidden state pcur, cnt, inc; ties branch), "
            "(b) realistic constant-F0 runs (20 Hz..rate/2 and beyond the clamps, rates 8k..96k, frame periods 40..480): spacing, height^2 = T0, count law, "
            "(c) unvoiced noise statistics, (d) mixed excitation identity x = h*pulse + (delta-h)*noise for random odd tap counts 1..31",
            counts)
