//! Engine-level replayer (C03, C11, C15, C16, C17): Gen_Engine histories against the real API.
//! The specification assigns a content key to every artefact; artefacts with equal keys must be bit-identical.
use crate::eng::*;
use crate::util::*;
use jbonsai::duration::DurationEstimator;
use jbonsai::label::Labels;
use jbonsai::model::Models;
use jbonsai::speech::SpeechGenerator;
use jbonsai::Engine;
use jlabel::Label;
use serde_json::{json, Value};
use std::collections::HashMap;

pub struct Utt {
    pub lines: Vec<String>,
}

pub fn utterances(corpus: &Corpus) -> Vec<Utt> {
    vec![
        Utt { lines: corpus.lines[0..3].to_vec() },
        Utt { lines: if corpus.extras.len() >= 3 { corpus.extras[0..3].to_vec() } else { corpus.lines[40..42].to_vec() } },
        Utt { lines: vec![corpus.lines[7].clone(), corpus.lines[300].clone(), corpus.lines[8].clone(), corpus.lines[1455].clone()] },
        // silence and pause labels only
        Utt {
            lines: {
                let sil: Vec<String> = corpus.lines.iter().filter(|l| l.contains("-sil+")).take(2).cloned().collect();
                let pau: Vec<String> = corpus.lines.iter().filter(|l| l.contains("-pau+")).take(1).cloned().collect();
                vec![sil[0].clone(), pau[0].clone(), sil[sil.len() - 1].clone()]
            },
        },
    ]
}

pub fn timed(lines: &[String]) -> Vec<String> {
    lines.iter().enumerate().map(|(i, l)| format!("{} {} {}", i as u64 * 600_000, (i as u64 + 1) * 600_000 + 12_345, l)).collect()
}

pub enum Input {
    Labels(Vec<Label>),
    Lines(Vec<String>, String),
}

pub fn make_input(u: &Value, utts: &[Utt]) -> Input {
    let base = &utts[vu(&u["id"]) - 1].lines;
    let lines = if vb(&u["timed"]) { timed(base) } else { base.clone() };
    match vs(&u["form"]) {
        "labels" => Input::Labels(base.iter().map(|l| l.parse().unwrap()).collect()),
        f => Input::Lines(lines, f.to_string()),
    }
}

pub fn synth(engine: &Engine, inp: &Input) -> Result<Vec<f64>, String> {
    match inp {
        Input::Labels(l) => engine.synthesize(l.clone()).map_err(|e| e.to_string()),
        Input::Lines(lines, kind) => match kind.as_str() {
            "vec" => engine.synthesize(lines.clone()).map_err(|e| e.to_string()),
            "array" => {
                let r: Vec<&str> = lines.iter().map(|s| s.as_str()).collect();
                match r.len() {
                    2 => engine.synthesize(&[r[0], r[1]]),
                    3 => engine.synthesize(&[r[0], r[1], r[2]]),
                    4 => engine.synthesize(&[r[0], r[1], r[2], r[3]]),
                    _ => engine.synthesize(&r[..]),
                }
                .map_err(|e| e.to_string())
            }
            _ => engine.synthesize(&lines[..]).map_err(|e| e.to_string()),
        },
    }
}
pub fn generator(engine: &Engine, inp: &Input) -> Result<SpeechGenerator, String> {
    match inp {
        Input::Labels(l) => engine.generator(l.clone()).map_err(|e| e.to_string()),
        Input::Lines(lines, _) => engine.generator(&lines[..]).map_err(|e| e.to_string()),
    }
}
/// durations through the public path (Labels -> Models -> DurationEstimator)
pub fn durations(engine: &Engine, inp: &Input) -> Result<Vec<usize>, String> {
    let c = &engine.condition;
    let labels = match inp {
        Input::Labels(l) => Labels::new(l.clone(), None),
        Input::Lines(lines, _) => Labels::load_from_strings(c.get_sampling_frequency(), c.get_fperiod(), lines),
    }
    .map_err(|e| e.to_string())?;
    let m = Models::new(labels.labels(), &engine.voices, c.get_interporation_weight());
    let est = DurationEstimator::new(m.duration(), m.nstate());
    Ok(if c.get_phoneme_alignment_flag() { est.create_with_alignment(labels.times()) } else { est.create(c.get_speed()) })
}

/// abstract value 1 = the loaded default, 2 = an alternative
pub fn apply_set(engine: &mut Engine, base: &Engine, st: &Value) {
    let two = vi(&st["v"]) == 2;
    let s = (vi(&st["s"]) - 1).max(0) as usize;
    let (c, b) = (&mut engine.condition, &base.condition);
    match vs(&st["field"]) {
        "speed" => c.set_speed(if two { 1.5 } else { b.get_speed() }),
        "ht" => c.set_additional_half_tone(if two { 3.5 } else { 0.0 }),
        "vol" => c.set_volume(if two { -6.0 } else { 0.0 }),
        "alpha" => c.set_alpha(if two { 0.4 } else { b.get_alpha() }),
        "beta" => c.set_beta(if two { 0.3 } else { 0.0 }),
        "fperiod" => c.set_fperiod(if two { b.get_fperiod() / 2 + 3 } else { b.get_fperiod() }),
        "rate" => c.set_sampling_frequency(if two { 44100 } else { b.get_sampling_frequency() }),
        "thr" => c.set_msd_threshold(s, if two { 0.3 } else { 0.5 }),
        "gvw" => c.set_gv_weight(s, if two { 0.6 } else { 1.0 }),
        "align" => c.set_phoneme_alignment_flag(two),
        // interpolation weights of the voice set: value 1 writes the loaded defaults back THROUGH THE SETTERS (same values, another
        // history), value 2 writes other weights (a single voice admits only [1.0])
        "iw" => {
            let n = b.get_interporation_weight().get_duration().len();
            let ns = base.voices.global_metadata().num_streams;
            let alt: Vec<f64> = match n {
                1 => vec![1.0],
                2 => vec![0.75, 0.25],
                _ => {
                    let mut v = vec![0.0; n];
                    v[0] = 0.5;
                    v[1] = 0.25;
                    v[2] = 0.25;
                    v
                }
            };
            let biw = b.get_interporation_weight();
            let iw = c.get_interporation_weight_mut();
            let ok = |r: Result<(), jbonsai::model::interporation_weight::WeightError>| r.unwrap_or_else(|e| die(&format!("interpolation weight setter rejected in-range weights: {}", e)));
            if two {
                ok(iw.set_duration(&alt));
                for s in 0..ns {
                    ok(iw.set_parameter(s, &alt));
                    ok(iw.set_gv(s, &alt));
                }
            } else {
                // (on the way, pass through a vertex so that "back to the default values" really is a history)
                let mut vertex = vec![0.0; n];
                vertex[n - 1] = 1.0;
                ok(iw.set_duration(&vertex));
                ok(iw.set_duration(&biw.get_duration().to_vec()));
                for s in 0..ns {
                    ok(iw.set_parameter(s, &vertex));
                    ok(iw.set_parameter(s, &biw.get_parameter(s).to_vec()));
                    ok(iw.set_gv(s, &vertex));
                    ok(iw.set_gv(s, &biw.get_gv(s).to_vec()));
                }
            }
        }
        f => die(&format!("unknown field {}", f)),
    }
}

fn canon(v: &Value) -> String {
    serde_json::to_string(v).unwrap()
}

struct Tables {
    dur: HashMap<String, String>,
    traj: HashMap<String, String>,
    audio: HashMap<String, Vec<f64>>,
}

fn check_insert(map: &mut HashMap<String, String>, key: String, dg: String) -> bool {
    match map.get(&key) {
        Some(old) => *old == dg,
        None => {
            map.insert(key, dg);
            true
        }
    }
}

/// Observe every artefact of a synthesis call and check it against the tables.
fn observe(engine: &Engine, inp: &Input, keys: &Value, t: &mut Tables) -> Result<Vec<f64>, (String, String)> {
    let before = settings_snapshot(engine);
    let w = synth(engine, inp).map_err(|e| ("synth:error".to_string(), e))?;
    let d = durations(engine, inp).map_err(|e| ("durations:error".to_string(), e))?;
    let g = generator(engine, inp).map_err(|e| ("generator:error".to_string(), e))?;
    if settings_snapshot(engine) != before {
        return Err(("purity:settings".into(), "a synthesis call changed the engine's observable settings".into()));
    }
    let dd: Vec<f64> = d.iter().map(|x| *x as f64).collect();
    if !check_insert(&mut t.dur, canon(&keys["dur"]), digest(&dd)) {
        return Err(("key:durations".into(), format!("durations differ for equal duration key {}", keys["dur"])));
    }
    let (sp, lf0, lpf) = g.verif_trajectories();
    for (s, tr) in [sp, lf0, lpf].iter().enumerate() {
        if s < va(&keys["traj"]).len() && !check_insert(&mut t.traj, canon(&keys["traj"][s]), digest2(tr)) {
            return Err((format!("key:trajectory:stream{}", s), format!("trajectory of stream {} differs for equal key {}", s, keys["traj"][s])));
        }
    }
    let ak = canon(&keys["audio"]);
    match t.audio.get(&ak) {
        Some(old) => {
            if !bits_eq(old, &w) {
                return Err(("key:audio".into(), format!("waveform differs for equal content key {}", keys["audio"])));
            }
        }
        None => {
            t.audio.insert(ak, w.clone());
        }
    }
    Ok(w)
}

type Digests = (HashMap<String, String>, HashMap<String, String>, HashMap<String, String>);

fn replay_case(base: &Engine, case: &Value, utts: &[Utt]) -> (Option<(usize, String, String)>, Digests) {
    let mut t = Tables { dur: HashMap::new(), traj: HashMap::new(), audio: HashMap::new() };
    let r = replay_case_inner(base, case, utts, &mut t);
    let audio = t.audio.iter().map(|(k, w)| (k.clone(), digest(w))).collect();
    (r, (t.dur, t.traj, audio))
}

fn replay_case_inner(base: &Engine, case: &Value, utts: &[Utt], t: &mut Tables) -> Option<(usize, String, String)> {
    let mut engines: HashMap<String, Engine> = HashMap::new();
    engines.insert("e1".into(), base.clone());
    let mut gens: HashMap<String, (SpeechGenerator, String)> = HashMap::new();
    for (j, st) in va(&case["hist"]).iter().enumerate() {
        let fail = |k: &str, m: String| Some((j, k.to_string(), m));
        match vs(&st["act"]) {
            "set" => {
                let e = engines.get_mut(vs(&st["e"])).unwrap();
                apply_set(e, base, st);
            }
            "clone" => {
                let c = engines[vs(&st["e"])].clone();
                engines.insert(vs(&st["e2"]).to_string(), c);
            }
            "synth" => {
                let inp = make_input(&st["u"], utts);
                if let Err((k, m)) = observe(&engines[vs(&st["e"])], &inp, &st["keys"], t) {
                    return fail(&k, m);
                }
            }
            "gen" => {
                let inp = make_input(&st["u"], utts);
                let e = &engines[vs(&st["e"])];
                if let Err((k, m)) = observe(e, &inp, &st["keys"], t) {
                    return fail(&k, m);
                }
                match generator(e, &inp) {
                    Ok(g) => {
                        gens.insert(vs(&st["g"]).to_string(), (g, canon(&st["keys"]["audio"])));
                    }
                    Err(m) => return fail("generator:error", m),
                }
            }
            "step" => {
                let (g, key) = gens.get_mut(vs(&st["g"])).unwrap();
                let reference = &t.audio[key];
                let fp = g.fperiod();
                let pos = vu(&st["pos"]);
                let mut buf = vec![sentinel(); fp + 7];
                let r = g.generate_step(&mut buf);
                let total = reference.len() / fp;
                if pos < total {
                    if r != fp || !bits_eq(&buf[..fp], &reference[pos * fp..(pos + 1) * fp]) {
                        return fail("gen:frozen", format!("frame {} of a live generator differs from the waveform of its creation-time key", pos));
                    }
                } else if r != 0 {
                    return fail("gen:exhausted", "exhausted generator produced data".into());
                }
            }
            "finish" => {
                let (g, key) = gens.remove(vs(&st["g"])).unwrap();
                let reference = &t.audio[&key];
                let fp = g.fperiod();
                let pos = vu(&st["pos"]).min(reference.len() / fp);
                let out = g.generate_all();
                if !bits_eq(&out, &reference[pos * fp..]) {
                    return fail("gen:finish", "remaining frames of a live generator differ from the waveform of its creation-time key".into());
                }
            }
            a => die(&format!("unknown act {}", a)),
        }
    }
    None
}

pub fn replay(cases_path: &str, out_path: &str, voice_path: &str) {
    let cases = read_jsonl(cases_path);
    let corpus = Corpus::load();
    let utts = utterances(&corpus);
    // (a comma-separated list loads a voice set)
    let paths: Vec<&str> = voice_path.split(',').collect();
    let base = Engine::load(&paths).unwrap_or_else(|e| die(&format!("{}: {}", voice_path, e)));
    let results = par_map(&cases, |_, case| match guarded(|| replay_case(&base, case, &utts)) {
        Ok(r) => r,
        Err(p) => (Some((0, format!("panic:{}", p), p)), (HashMap::new(), HashMap::new(), HashMap::new())),
    });
    let mut out = Out::create(out_path);
    let mut failed = 0;
    let mut steps = 0;
    // keys determine artefacts globally: merge the per-history tables and look for conflicts across histories
    let mut global: [HashMap<String, (String, usize)>; 3] = [HashMap::new(), HashMap::new(), HashMap::new()];
    let names = ["durations", "trajectory", "audio"];
    for (i, (r, tabs)) in results.into_iter().enumerate() {
        steps += va(&cases[i]["hist"]).len();
        let mut bad = r.map(|(j, key, msg)| (j, key, msg));
        if bad.is_none() {
            for (k, tab) in [tabs.0, tabs.1, tabs.2].into_iter().enumerate() {
                for (key, dg) in tab {
                    match global[k].get(&key) {
                        Some((old, first)) if *old != dg => {
                            bad = Some((0, format!("key:{}:across-histories", names[k]), format!("{} differ between history {} and history {} for equal key {}", names[k], first, i, key)));
                        }
                        Some(_) => {}
                        None => {
                            global[k].insert(key, (dg, i));
                        }
                    }
                }
            }
        }
        if let Some((j, key, msg)) = bad {
            failed += 1;
            out.line(&json!({"case": i, "step": j, "key": key, "msg": msg, "input": cases[i]}));
        }
    }
    out.line(&json!({"summary": {"cases": cases.len(), "failed": failed, "steps": steps,
        "distinct_duration_keys": global[0].len(), "distinct_trajectory_keys": global[1].len(), "distinct_audio_keys": global[2].len()}}));
    out.finish();
}
