---- MODULE MC_Engine ----
EXTENDS Engine
MCUtts == { [id |-> 1, form |-> "slice", timed |-> FALSE], [id |-> 1, form |-> "vec", timed |-> TRUE], [id |-> 2, form |-> "labels", timed |-> FALSE] }
\* bound the exploration
Bound == Cardinality(outs) <= 1 /\ \A g \in Gens : gen[g] = NoGen \/ gen[g].pos <= 1
\* `last` is an observation of the step just taken, not state: hide it from the fingerprint
View == <<eng, gen, outs, noise>>
====
