//! C03 probe: compile-time thread-safety assertions and the multi-thread driver.
//! If this crate fails to compile while the harness compiles, that is the C03 violation
//! (Engine no longer Send + Sync, or SpeechGenerator no longer Send).
#![allow(dead_code)]
#[path = "../../harness/src/util.rs"]
mod util;
#[path = "../../harness/src/eng.rs"]
mod eng;

use jbonsai::speech::SpeechGenerator;
use jbonsai::Engine;
use serde_json::json;
use std::sync::atomic::{AtomicUsize, Ordering};
use std::sync::{Arc, Barrier, Mutex};
use util::*;

fn assert_send_sync<T: Send + Sync>() {}
fn assert_send<T: Send>() {}

fn main() {
    assert_send_sync::<Engine>();
    assert_send::<SpeechGenerator>();
    install_panic_hook();
    let a: Vec<String> = std::env::args().collect();
    if a.len() < 5 {
        die("usage: probe <seed> <rounds> <out> <voice>");
    }
    let seed: u64 = a[1].parse().unwrap();
    let rounds: usize = a[2].parse().unwrap();
    let corpus = eng::Corpus::load();
    let mut utts: Vec<Vec<String>> = vec![corpus.lines[0..3].to_vec(), corpus.lines[40..42].to_vec(), corpus.lines[100..104].to_vec(), vec![]];
    // a silence-and-pause-only utterance (no frame eligible for global variance) and a single label
    let sil: Vec<String> = corpus.lines.iter().filter(|l| l.contains("-sil+") || l.contains("-pau+")).take(3).cloned().collect();
    if sil.len() == 3 {
        utts.push(sil);
    }
    utts.push(corpus.lines[300..301].to_vec());
    if corpus.extras.len() >= 8 {
        utts.push(corpus.extras[0..4].to_vec());
        utts.push(corpus.extras[8..corpus.extras.len().min(12)].to_vec());
    }
    let log: Arc<Mutex<Vec<serde_json::Value>>> = Arc::new(Mutex::new(Vec::new()));
    let ticket = Arc::new(AtomicUsize::new(0));
    let mut rng0 = Rng::new(seed);
    for round in 0..rounds {
        let mut engine = Engine::load(&[&a[4]]).unwrap_or_else(|e| die(&e.to_string()));
        let cond = eng::random_condition(&mut engine, &mut rng0, false);
        let engine = Arc::new(engine);
        let settings = digest_str(&eng::settings_snapshot(&engine));
        log.lock().unwrap().push(json!({"ev": "snap", "settings": settings, "round": round, "cond": cond}));
        let k = [2usize, 4, 8, 16][round % 4];
        let barrier = Arc::new(Barrier::new(k));
        let mut handles = Vec::new();
        for t in 0..k {
            let (engine, log, ticket, barrier, utts) = (engine.clone(), log.clone(), ticket.clone(), barrier.clone(), utts.clone());
            let tseed = seed ^ ((round as u64) << 16) ^ (t as u64 + 1);
            handles.push(std::thread::spawn(move || {
                let mut rng = Rng::new(tseed);
                barrier.wait();
                for _ in 0..(2 + rng.below(3)) {
                    // seeded random stagger
                    let spin = rng.below(20000);
                    let mut x = 0u64;
                    for i in 0..spin {
                        x = x.wrapping_add(i as u64);
                    }
                    std::hint::black_box(x);
                    let u = rng.below(utts.len());
                    let mode = rng.below(2);
                    let key = format!("u{}:{}", u, if mode == 0 { "synthesize" } else { "generator" });
                    {
                        // the ticket is taken while holding the log lock: file order = ticket order
                        let mut l = log.lock().unwrap();
                        let tk = ticket.fetch_add(1, Ordering::SeqCst);
                        l.push(json!({"ev": "begin", "thr": format!("r{}t{}", round, t), "key": key, "ticket": tk}));
                    }
                    let out = guarded(|| {
                        if mode == 0 {
                            engine.synthesize(&utts[u][..]).map_err(|e| e.to_string())
                        } else {
                            let mut g = engine.generator(&utts[u][..]).map_err(|e| e.to_string())?;
                            let fp = g.fperiod();
                            let mut all = Vec::new();
                            let mut buf = vec![0.0; fp];
                            while g.generate_step(&mut buf) > 0 {
                                all.extend_from_slice(&buf);
                                if all.len() > 20 * fp && all.len() % (7 * fp) == 0 {
                                    std::thread::yield_now();
                                }
                            }
                            Ok(all)
                        }
                    });
                    let (dg, err) = match out {
                        Ok(Ok(w)) => (digest(&w), String::new()),
                        Ok(Err(e)) => ("error".to_string(), e),
                        Err(p) => ("panic".to_string(), p),
                    };
                    let after = digest_str(&eng::settings_snapshot(&engine));
                    let mut l = log.lock().unwrap();
                    let tk = ticket.fetch_add(1, Ordering::SeqCst);
                    // both call styles must give the same samples: the key for the table is the utterance alone
                    l.push(json!({"ev": "end", "thr": format!("r{}t{}", round, t), "key": key, "ukey": format!("r{}u{}", round, u), "dg": dg, "settings": after, "ticket": tk, "err": err}));
                }
            }));
        }
        for h in handles {
            if h.join().is_err() {
                die("thread died outside guarded code");
            }
        }
    }
    let mut out = Out::create(&a[3]);
    for e in log.lock().unwrap().iter() {
        out.line(e);
    }
    out.finish();
}

fn digest_str(s: &str) -> String {
    let v: Vec<f64> = s.bytes().map(|b| b as f64).collect();
    digest(&v)
}
