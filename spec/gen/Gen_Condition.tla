---- MODULE Gen_Condition ----
(* Condition + history variable: every setter call with its argument and the full getter
   image the specification expects afterwards.  BFS depth L = all setter histories of length L;
   -simulate samples longer ones. *)
EXTENDS Condition, TLC, Json
CONSTANT L
GF == <<"-1e300", "-24", "-1", "-5e-324", "-0.0", "0", "5e-324", "5e-7", "1e-6", "0.25", "0.5", "0.55", "1", "1.5", "24", "1e300">>
GU == <<"0", "1", "2", "240", "48000", "4294967297", "9007199254740993", "18446744073709551614", "18446744073709551615">>   \* incl. 2^32+1, 2^53+1 (no f64 holds it), usize::MAX-1
GV == <<"-60", "-20", "-1", "0", "0.25", "1", "20", "60">>
VARIABLE hist
gvars == <<c, hist>>
H(name, s, arg) == hist' = Append(hist, [set |-> name, s |-> s, arg |-> arg, st |-> c'])
GInit == Init /\ hist = <<>>
GNext == /\ Len(hist) < L
         /\ \/ \E x \in UI : SetRate(x) /\ H("rate", 0, ULits[x])
            \/ \E x \in UI : SetFperiod(x) /\ H("fperiod", 0, ULits[x])
            \/ \E x \in VI : SetVolume(x) /\ H("volume", 0, VLits[x])
            \/ \E s \in Streams, x \in FI : SetThr(s, x) /\ H("thr", s, FLits[x])
            \/ \E s \in Streams, x \in FI : SetGvw(s, x) /\ H("gvw", s, FLits[x])
            \/ \E b \in BOOLEAN : SetAlign(b) /\ H("align", 0, IF b THEN "true" ELSE "false")
            \/ \E x \in FI : SetSpeed(x) /\ H("speed", 0, FLits[x])
            \/ \E x \in FI : SetAlpha(x) /\ H("alpha", 0, FLits[x])
            \/ \E x \in FI : SetBeta(x) /\ H("beta", 0, FLits[x])
            \/ \E x \in FI : SetHalfTone(x) /\ H("halftone", 0, FLits[x])
\* a final marker step so that every behaviour is printed exactly once (also under -simulate,
\* where TLC evaluates invariants on all successors of the state it extends)
Fin == Len(hist) = L /\ hist' = Append(hist, [set |-> "fin"]) /\ UNCHANGED c
GSpec == GInit /\ [][GNext \/ Fin]_gvars
Emit == Len(hist) = L + 1 => PrintT(<<"CASE", ToJson([init |-> Img(Default), hist |-> [i \in 1..L |-> [set |-> hist[i].set, s |-> hist[i].s, arg |-> hist[i].arg, img |-> Img(hist[i].st)]]])>>)
====
