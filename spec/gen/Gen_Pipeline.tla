---- MODULE Gen_Pipeline ----
(* C01 S->I cases: a member of the voice family, 0..3 labels, a condition; expected F, duration set,
   voicing mask.  Also checks the composition laws on every enumerated case. *)
EXTENDS Pipeline, Json
CONSTANTS NStates, Shapes, Salts, Stages, WinSets, MaxLabels, LabelIdx, CondIdx,
          MaxUttStates      \* bound on labels x states per utterance (the set-valued duration results are enumerated explicitly)
VARIABLES f, labs, ci
vars == <<f, labs, ci>>
F0 == [nstate |-> 0, nstream |-> 0, winset |-> 1, stage |-> 0, gv |-> FALSE, shape |-> 0, quoted |-> FALSE, salt |-> 0]
\* condition table: speed p/q, alignment, end marks by label position (quarter frames), LF0 threshold (eighths),
\* plus fields that do not influence F and are simply applied by the harness
Cond(k) ==
  CASE k = 1 -> [p |-> 1, q |-> 1, align |-> FALSE, ends |-> <<>>, thr8 |-> 4, beta8 |-> 0, ht |-> 0, vol |-> 0, gvw4 |-> 4, fp |-> 0, rate |-> 0, form |-> "labels"]
    [] k = 2 -> [p |-> 1, q |-> 4, align |-> FALSE, ends |-> <<>>, thr8 |-> 0, beta8 |-> 2, ht |-> 24, vol |-> 20, gvw4 |-> 8, fp |-> 3, rate |-> 0, form |-> "slice"]
    [] k = 3 -> [p |-> 4, q |-> 1, align |-> FALSE, ends |-> <<>>, thr8 |-> 8, beta8 |-> 6, ht |-> -24, vol |-> -20, gvw4 |-> 0, fp |-> 1, rate |-> 8000, form |-> "vec"]
    [] k = 4 -> [p |-> 3, q |-> 2, align |-> FALSE, ends |-> <<>>, thr8 |-> 3, beta8 |-> 0, ht |-> 1, vol |-> 0, gvw4 |-> 2, fp |-> 80, rate |-> 96000, form |-> "array"]
    [] k = 5 -> [p |-> 1, q |-> 1, align |-> TRUE, ends |-> <<13, 40, -4>>, thr8 |-> 5, beta8 |-> 0, ht |-> 0, vol |-> 0, gvw4 |-> 4, fp |-> 0, rate |-> 0, form |-> "slice"]
    [] k = 6 -> [p |-> 2, q |-> 1, align |-> TRUE, ends |-> <<-4, 27, 27>>, thr8 |-> 6, beta8 |-> 4, ht |-> -12, vol |-> 5, gvw4 |-> 6, fp |-> 480, rate |-> 0, form |-> "slice"]
    [] k = 7 -> [p |-> 1, q |-> 1, align |-> TRUE, ends |-> <<-4, -4, -4>>, thr8 |-> 4, beta8 |-> 0, ht |-> 0, vol |-> 0, gvw4 |-> 4, fp |-> 0, rate |-> 0, form |-> "labels"]
    [] k \in 9..17 -> [p |-> 1, q |-> 1, align |-> FALSE, ends |-> <<>>, thr8 |-> k - 9, beta8 |-> 0, ht |-> 0, vol |-> 0, gvw4 |-> 4, fp |-> 0, rate |-> 0, form |-> "labels"]
    [] k = 8 -> [p |-> 5, q |-> 4, align |-> FALSE, ends |-> <<>>, thr8 |-> 1, beta8 |-> 1, ht |-> 12, vol |-> -5, gvw4 |-> 3, fp |-> 0, rate |-> 22050, form |-> "vec"]
Init == f = F0 /\ labs = <<>> /\ ci = 0
Next == \/ f = F0 /\ \E ns \in NStates, sh \in Shapes, sa \in Salts, sg \in Stages :
                      f' = [F0 EXCEPT !.nstate = ns, !.shape = sh, !.salt = sa, !.stage = sg] /\ UNCHANGED <<labs, ci>>
        \/ f # F0 /\ f.nstream = 0 /\ \E n \in {2, 3}, w \in WinSets, g \in BOOLEAN, qd \in BOOLEAN :
                      f' = [f EXCEPT !.nstream = n, !.winset = w, !.gv = g, !.quoted = qd] /\ UNCHANGED <<labs, ci>>
        \/ f.nstream # 0 /\ ci = 0 /\ \E n \in {n \in 0..MaxLabels : n * f.nstate <= MaxUttStates} : \E ls \in [1..n -> LabelIdx] : \E k \in CondIdx :
                      labs' = ls /\ ci' = k /\ UNCHANGED f
Spec == Init /\ [][Next]_vars
Ends(c, n) == [i \in 1..n |-> IF i <= Len(c.ends) THEN c.ends[i] ELSE -4]
SetSeq(S) == CHOOSE s \in [1..Cardinality(S) -> S] : \A i, j \in 1..Cardinality(S) : i # j => s[i] # s[j]
\* the rendered voice is printed once per family member; cases refer to it through `fam`
EmitVoice == (f.nstream # 0 /\ ci = 0) => PrintT(<<"CASE", ToJson([kind |-> "voice", fam |-> f, voice |-> Render(Doc(f))])>>)
Emit == ci # 0 =>
  LET v == Doc(f)
      c == [Cond(ci) EXCEPT !.ends = Ends(Cond(ci), Len(labs))]
      ds == DurationSet(v, labs, c)
      d1 == CHOOSE d \in ds : TRUE
  IN /\ FrameExact(v, labs, c) /\ AllStatesPresent(v, labs, c) /\ EmptyIsEmpty(v, c)
     /\ PrintT(<<"CASE", ToJson([kind |-> "run", fam |-> f, labels |-> labs, cond |-> c, nstate |-> v.nstate,
             F |-> Sum(d1), durs |-> SetSeq(ds),
             mask |-> IF Cardinality(ds) = 1 THEN VoicedMask(v, labs, d1, c.thr8) ELSE <<>>,
             unique |-> Cardinality(ds) = 1])>>)
====
