----------------------------- MODULE VoiceFile -----------------------------
(* The .htsvoice file format as data (DESIGN 2.2 / 3.3).

   A VoiceDoc is a record
     [ rate, fperiod, nstate : Nat, gvoff : Seq(STRING), quoted : BOOLEAN,
       dur : Model,
       streams : Seq([ name : STRING, pre : STRING, vlen : Nat, msd : BOOLEAN,
                       wins : Seq(Seq(Dyadic)), opts : Seq(STRING),
                       model : Model, usegv : BOOLEAN, gv : Model ]) ]
   Model  == [ qs : Seq([name, pats]), trees : Seq(Tree), pdfs : Seq(Seq(Seq(Dyadic))) ]
   Tree   == [ state : Nat, nodes : Seq([id, q, no, yes]), leaf : Nat ]     (nodes = <<>> : single leaf)
   child  == [ k |-> "n" | "p", v |-> Int ]   (node id, or 1-based PDF index of this tree)
   Dyadic == <<n, k>>  meaning n / 2^k

   Render(doc) produces the exact text of the header sections and the [DATA] section as a
   token list (u32 / f32 / txt); byte offsets in [POSITION] are computed here.  The harness
   only concatenates tokens and encodes numbers little-endian. *)
EXTENDS Integers, Sequences, TLC

RECURSIVE Join(_,_)
Join(ss, sep) == IF ss = <<>> THEN "" ELSE IF Len(ss) = 1 THEN ss[1] ELSE ss[1] \o sep \o Join(Tail(ss), sep)
RECURSIVE Cat(_)
Cat(ss) == IF ss = <<>> THEN "" ELSE Head(ss) \o Cat(Tail(ss))
RECURSIVE Flat(_)
Flat(sss) == IF sss = <<>> THEN <<>> ELSE Head(sss) \o Flat(Tail(sss))

RECURSIVE Pow2(_)
Pow2(k) == IF k = 0 THEN 1 ELSE 2 * Pow2(k - 1)
Pad(n, w) == LET s == ToString(n) IN
             IF Len(s) >= w THEN s ELSE SubSeq("000000000", 1, w - Len(s)) \o s
\* exact decimal text of the dyadic n/2^k, k <= 6 (six fractional digits are exact: 10^6 / 2^6 integral);
\* a negative k denotes the decimal fraction n/10^(-k), written with -k fractional digits (window files carry values such
\* as 0.1 or 0.285714 that no binary float holds exactly: a reader must return the double nearest to the decimal)
Pow10(e) == IF e = 0 THEN 1 ELSE IF e = 1 THEN 10 ELSE IF e = 2 THEN 100 ELSE IF e = 3 THEN 1000 ELSE IF e = 4 THEN 10000
            ELSE IF e = 5 THEN 100000 ELSE 1000000
DecStr(d) == LET n == d[1]  k == d[2]  a == IF n < 0 THEN -n ELSE n IN
             IF k >= 0 THEN LET m == a * (1000000 \div Pow2(k))
                            IN (IF n < 0 THEN "-" ELSE "") \o ToString(m \div 1000000) \o "." \o Pad(m % 1000000, 6)
             ELSE (IF n < 0 THEN "-" ELSE "") \o ToString(a \div Pow10(-k)) \o "." \o Pad(a % Pow10(-k), -k)

\* ---------- tree / question text
Q(s) == "\"" \o s \o "\""
ChildTxt(c, pre, quoted) == IF c.k = "n" THEN ToString(c.v)
                            ELSE IF quoted THEN Q(pre \o ToString(c.v)) ELSE pre \o ToString(c.v)
RowTxt(r, pre, quoted) == " " \o ToString(r.id) \o " " \o r.q \o "   " \o ChildTxt(r.no, pre, quoted)
                          \o "  " \o ChildTxt(r.yes, pre, quoted) \o " \n"
LeafPre(pre, t) == pre \o "s" \o ToString(t.state) \o "_"
TreeTxt(t, pre, quoted) ==
  "{*}[" \o ToString(t.state) \o "]\n" \o
  (IF t.nodes = <<>> THEN "   " \o ChildTxt([k |-> "p", v |-> t.leaf], LeafPre(pre, t), quoted) \o "\n"
   ELSE "{\n" \o Cat([i \in 1..Len(t.nodes) |-> RowTxt(t.nodes[i], LeafPre(pre, t), quoted)]) \o "}\n")
QsTxt(qs) == Cat([i \in 1..Len(qs) |-> "QS " \o qs[i].name \o " { "
                   \o Join([j \in 1..Len(qs[i].pats) |-> Q(qs[i].pats[j])], ",") \o " }\n"])
\* a model may carry `raw`: literal tree-section text that replaces the generated one (used by the fault model for
\* structural defects; offsets are then computed for the defective text, so the defect reaches the tree converter)
ModelTreeTxt(m, pre, quoted) == IF "raw" \in DOMAIN m THEN m.raw
                                ELSE QsTxt(m.qs) \o "\n" \o Cat([i \in 1..Len(m.trees) |-> TreeTxt(m.trees[i], pre, quoted)])

\* ---------- tokens
U32(v) == [t |-> "u32", v |-> v]
F32(d) == [t |-> "f32", n |-> d[1], k |-> d[2]]
Txt(s) == [t |-> "txt", s |-> s]
ModelPdfToks(m) == [i \in 1..Len(m.pdfs) |-> U32(Len(m.pdfs[i]))] \o
                   Flat([i \in 1..Len(m.pdfs) |-> Flat([j \in 1..Len(m.pdfs[i]) |->
                         [w \in 1..Len(m.pdfs[i][j]) |-> F32(m.pdfs[i][j][w])]])])
TokSize(tok) == IF tok.t = "txt" THEN Len(tok.s) ELSE 4
RECURSIVE ToksSize(_)
ToksSize(ts) == IF ts = <<>> THEN 0 ELSE TokSize(Head(ts)) + ToksSize(Tail(ts))
WinTxt(w) == ToString(Len(w)) \o Cat([i \in 1..Len(w) |-> " " \o DecStr(w[i])])

GvStreams(v) == SelectSeq([s \in 1..Len(v.streams) |-> s], LAMBDA s : v.streams[s].usegv)

\* ---------- [DATA] blobs in file order
Blobs(v) ==
  << [name |-> "DURATION_PDF", toks |-> ModelPdfToks(v.dur)],
     [name |-> "DURATION_TREE", toks |-> <<Txt(ModelTreeTxt(v.dur, "dur_", v.quoted))>>] >>
  \o Flat([s \in 1..Len(v.streams) |-> [w \in 1..Len(v.streams[s].wins) |->
        [name |-> "WIN:" \o v.streams[s].name \o ":" \o ToString(w), toks |-> <<Txt(WinTxt(v.streams[s].wins[w]))>>]]])
  \o [s \in 1..Len(v.streams) |-> [name |-> "STREAM_PDF[" \o v.streams[s].name \o "]", toks |-> ModelPdfToks(v.streams[s].model)]]
  \o [s \in 1..Len(v.streams) |-> [name |-> "STREAM_TREE[" \o v.streams[s].name \o "]",
                                    toks |-> <<Txt(ModelTreeTxt(v.streams[s].model, v.streams[s].pre, v.quoted))>>]]
  \o [i \in 1..Len(GvStreams(v)) |-> LET s == GvStreams(v)[i] IN
        [name |-> "GV_PDF[" \o v.streams[s].name \o "]", toks |-> ModelPdfToks(v.streams[s].gv)]]
  \o [i \in 1..Len(GvStreams(v)) |-> LET s == GvStreams(v)[i] IN
        [name |-> "GV_TREE[" \o v.streams[s].name \o "]",
         toks |-> <<Txt(ModelTreeTxt(v.streams[s].gv, "gv_" \o v.streams[s].pre, v.quoted))>>]]

RECURSIVE Layout(_,_)
Layout(bs, off) == IF bs = <<>> THEN <<>> ELSE
   LET sz == ToksSize(Head(bs).toks) IN
   << [name |-> Head(bs).name, lo |-> off, hi |-> off + sz - 1] >> \o Layout(Tail(bs), off + sz)
Rng(lay, name) == LET e == CHOOSE i \in 1..Len(lay) : lay[i].name = name
                  IN ToString(lay[e].lo) \o "-" \o ToString(lay[e].hi)
B(b) == IF b THEN "1" ELSE "0"

\* header as key/value records; `kind` and `nums` describe the value for the fault model (Faults.tla):
\*   "sec" section marker, "int" one number, "bool", "range" a-b, "ranges" a-b,c-d,.., "str" anything else
KV(k, val, kind, nums) == [k |-> k, v |-> val, kind |-> kind, nums |-> nums]
Sec(name) == KV(name, "", "sec", <<>>)
IntKV(k, n) == KV(k, ToString(n), "int", <<n>>)
LayOf(lay, name) == lay[CHOOSE i \in 1..Len(lay) : lay[i].name = name]
RangeKV(k, lay, name) == LET e == LayOf(lay, name) IN KV(k, Rng(lay, name), "range", <<e.lo, e.hi>>)
\* order in which the per-stream lines of [STREAM] and [POSITION] are written (the keys carry the stream name)
Ord(v, s) == IF v.revhdr THEN Len(v.streams) + 1 - s ELSE s
HeaderKV(v, lay) ==
  << Sec("[GLOBAL]"), KV("HTS_VOICE_VERSION", "1.0", "str", <<>>), IntKV("SAMPLING_FREQUENCY", v.rate),
     IntKV("FRAME_PERIOD", v.fperiod), IntKV("NUM_STATES", v.nstate), IntKV("NUM_STREAMS", Len(v.streams)),
     KV("STREAM_TYPE", Join([s \in 1..Len(v.streams) |-> v.streams[s].name], ","), "names", <<>>),
     KV("FULLCONTEXT_FORMAT", "HTS_TTS_JPN", "str", <<>>), KV("FULLCONTEXT_VERSION", "1.0", "str", <<>>),
     KV("GV_OFF_CONTEXT", Join([i \in 1..Len(v.gvoff) |-> Q(v.gvoff[i])], ","), "pats", <<>>), KV("COMMENT", "", "str", <<>>),
     Sec("[STREAM]") >>
  \o [ss \in 1..Len(v.streams) |-> LET s == Ord(v, ss) IN IntKV("VECTOR_LENGTH[" \o v.streams[s].name \o "]", v.streams[s].vlen)]
  \o [ss \in 1..Len(v.streams) |-> LET s == Ord(v, ss) IN KV("IS_MSD[" \o v.streams[s].name \o "]", B(v.streams[s].msd), "bool", <<>>)]
  \o [ss \in 1..Len(v.streams) |-> LET s == Ord(v, ss) IN IntKV("NUM_WINDOWS[" \o v.streams[s].name \o "]", Len(v.streams[s].wins))]
  \o [ss \in 1..Len(v.streams) |-> LET s == Ord(v, ss) IN KV("USE_GV[" \o v.streams[s].name \o "]", B(v.streams[s].usegv), "bool", <<>>)]
  \o [ss \in 1..Len(v.streams) |-> LET s == Ord(v, ss) IN KV("OPTION[" \o v.streams[s].name \o "]", Join(v.streams[s].opts, ","), "opts", <<>>)]
  \o << Sec("[POSITION]"), RangeKV("DURATION_PDF", lay, "DURATION_PDF"), RangeKV("DURATION_TREE", lay, "DURATION_TREE") >>
  \o [ss \in 1..Len(v.streams) |-> LET s == Ord(v, ss) IN LET n == v.streams[s].name IN
         KV("STREAM_WIN[" \o n \o "]", Join([w \in 1..Len(v.streams[s].wins) |-> Rng(lay, "WIN:" \o n \o ":" \o ToString(w))], ","),
            "ranges", Flat([w \in 1..Len(v.streams[s].wins) |-> LET e == LayOf(lay, "WIN:" \o n \o ":" \o ToString(w)) IN <<e.lo, e.hi>>]))]
  \o [ss \in 1..Len(v.streams) |-> LET s == Ord(v, ss) IN LET n == "STREAM_PDF[" \o v.streams[s].name \o "]" IN RangeKV(n, lay, n)]
  \o [ss \in 1..Len(v.streams) |-> LET s == Ord(v, ss) IN LET n == "STREAM_TREE[" \o v.streams[s].name \o "]" IN RangeKV(n, lay, n)]
  \o [ii \in 1..Len(GvStreams(v)) |-> LET i == IF v.revhdr THEN Len(GvStreams(v)) + 1 - ii ELSE ii  n == "GV_PDF[" \o v.streams[GvStreams(v)[i]].name \o "]" IN RangeKV(n, lay, n)]
  \o [ii \in 1..Len(GvStreams(v)) |-> LET i == IF v.revhdr THEN Len(GvStreams(v)) + 1 - ii ELSE ii  n == "GV_TREE[" \o v.streams[GvStreams(v)[i]].name \o "]" IN RangeKV(n, lay, n)]
  \o << Sec("[DATA]") >>
KVLine(e) == IF e.kind = "sec" THEN e.k ELSE e.k \o ":" \o e.v
Header(v, lay) == LET kv == HeaderKV(v, lay) IN [i \in 1..Len(kv) |-> KVLine(kv[i])]

Render(v) == LET bs == Blobs(v)  lay == Layout(bs, 0) IN
  [header |-> Header(v, lay), data |-> Flat([i \in 1..Len(bs) |-> bs[i].toks])]

\* ---------- well-formedness of a document (what Render assumes)
ModelOK(m, plen) ==
  /\ Len(m.pdfs) = Len(m.trees)
  /\ \A i \in 1..Len(m.trees) :
       /\ \A j \in 1..Len(m.pdfs[i]) : Len(m.pdfs[i][j]) = plen
       /\ IF m.trees[i].nodes = <<>> THEN m.trees[i].leaf \in 1..Len(m.pdfs[i])
          ELSE \A r \in 1..Len(m.trees[i].nodes) : LET nd == m.trees[i].nodes[r] IN
                 /\ \E q \in 1..Len(m.qs) : m.qs[q].name = nd.q
                 /\ \A c \in {nd.no, nd.yes} :
                      IF c.k = "p" THEN c.v \in 1..Len(m.pdfs[i])
                      ELSE \E r2 \in 1..Len(m.trees[i].nodes) : m.trees[i].nodes[r2].id = c.v
DocOK(v) ==
  /\ ModelOK(v.dur, 2 * v.nstate)
  /\ \A s \in 1..Len(v.streams) : LET st == v.streams[s] IN
       /\ ModelOK(st.model, 2 * st.vlen * Len(st.wins) + (IF st.msd THEN 1 ELSE 0))
       /\ st.usegv => ModelOK(st.gv, 2 * st.vlen)
=============================================================================
