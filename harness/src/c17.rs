//! C17: label input forms and error reporting.
use crate::eng::*;
use crate::util::*;
use jbonsai::Engine;
use jlabel::Label;
use serde_json::{json, Value};
use std::collections::HashMap;

/// The delegates jbonsai uses to decide "parsable": str::parse::<f64> and jlabel (taken as oracles by the spec).
pub fn oracle(tokens_path: &str, out_path: &str) {
    let v: Value = serde_json::from_str(&std::fs::read_to_string(tokens_path).unwrap_or_else(|e| die(&e.to_string()))).unwrap();
    let time: Vec<bool> = va(&v["time"]).iter().map(|t| vs(t).parse::<f64>().is_ok()).collect();
    let label: Vec<bool> = va(&v["label"]).iter().map(|t| vs(t).parse::<Label>().is_ok()).collect();
    // the rest of a line after two times is handed to jlabel as is: a label followed by " extra" must be rejected by it
    let extra_rejected = va(&v["label"]).iter().all(|t| format!("{} extra", vs(t)).parse::<Label>().is_err());
    std::fs::write(out_path, serde_json::to_string(&json!({"time": time, "label": label, "extra_rejected": extra_rejected})).unwrap()).unwrap();
}

fn synth_text(engine: &Engine, text: &[String], form: &str) -> Result<Vec<f64>, String> {
    match form {
        "vec" => engine.synthesize(text.to_vec()).map_err(|e| e.to_string()),
        "array" => {
            let r: Vec<&str> = text.iter().map(|s| s.as_str()).collect();
            match r.len() {
                1 => engine.synthesize(&[r[0]]),
                2 => engine.synthesize(&[r[0], r[1]]),
                3 => engine.synthesize(&[r[0], r[1], r[2]]),
                _ => engine.synthesize(&r[..]),
            }
            .map_err(|e| e.to_string())
        }
        _ => engine.synthesize(text).map_err(|e| e.to_string()),
    }
}

pub fn replay(cases_path: &str, out_path: &str, voice: &str) {
    let cases = read_jsonl(cases_path);
    let engine = Engine::load(&[voice]).unwrap_or_else(|e| die(&e.to_string()));
    // reference waveforms of the clean label sequences, through the parsed-label form
    let mut clean_keys: Vec<String> = cases.iter().filter(|c| c["expect"]["kind"] == "ok").map(|c| serde_json::to_string(&c["clean"]).unwrap()).collect();
    clean_keys.sort();
    clean_keys.dedup();
    let refs: HashMap<String, String> = par_map(&clean_keys, |_, k| {
        let v: Value = serde_json::from_str(k).unwrap();
        let labels: Vec<Label> = va(&v).iter().map(|l| vs(l).parse().unwrap_or_else(|_| die("clean label does not parse"))).collect();
        let w = engine.synthesize(labels).unwrap_or_else(|e| die(&e.to_string()));
        (k.clone(), digest(&w))
    })
    .into_iter()
    .collect();
    let results = par_map(&cases, |_, c| -> Option<(String, String)> {
        let text: Vec<String> = va(&c["text"]).iter().map(|t| vs(t).to_string()).collect();
        let form = vs(&c["form"]);
        let r = guarded(|| synth_text(&engine, &text, form));
        let want_ok = c["expect"]["kind"] == "ok";
        if c["expect"]["kind"] == "any" {
            return match r {
                Err(p) => Some((format!("labels:panic:{}", p), format!("panic on label text {:?}: {}", text, p))),
                _ => None,
            };
        }
        match r {
            Err(p) => Some((format!("labels:panic:{}", p), format!("panic on label text {:?}: {}", text, p))),
            Ok(Err(e)) => {
                if want_ok {
                    Some(("labels:spurious-error".into(), format!("well-formed label text {:?} ({}) reported as error: {}", text, form, e)))
                } else {
                    None
                }
            }
            Ok(Ok(w)) => {
                if !want_ok {
                    Some(("labels:missed-error".into(), format!("malformed label text {:?} ({}) was accepted ({} samples)", text, form, w.len())))
                } else if digest(&w) != refs[&serde_json::to_string(&c["clean"]).unwrap()] {
                    Some((format!("labels:form:{}", form), format!("text {:?} given as {} synthesizes differently from the same labels given as parsed labels", text, form)))
                } else {
                    None
                }
            }
        }
    });
    let mut out = Out::create(out_path);
    let mut failed = 0;
    for (i, r) in results.into_iter().enumerate() {
        if let Some((key, msg)) = r {
            failed += 1;
            out.line(&json!({"case": i, "key": key, "msg": msg, "input": cases[i]}));
        }
    }
    let nok = cases.iter().filter(|c| c["expect"]["kind"] == "ok").count();
    out.line(&json!({"summary": {"cases": cases.len(), "failed": failed, "expected_ok": nok, "expected_err": cases.len() - nok}}));
    out.finish();
}

/// random corruptions of corpus lines: the outcome must be a waveform or an error, never a panic
pub fn record(seed: u64, n: usize, out_path: &str, voice: &str) {
    let corpus = Corpus::load();
    let engine = Engine::load(&[voice]).unwrap_or_else(|e| die(&e.to_string()));
    let its: Vec<usize> = (0..n).collect();
    let evs = par_map(&its, |_, it| {
        let mut rng = Rng::new(seed ^ 0xc17 ^ ((*it as u64) << 20));
        let k = 1 + rng.below(3);
        let mut lines: Vec<String> = (0..k).map(|_| corpus.lines[rng.below(corpus.lines.len())].clone()).collect();
        let which = rng.below(lines.len());
        let mut chars: Vec<char> = lines[which].chars().collect();
        // every third run is a combined corruption (kinds 9 / 10) whose offset is enumerated, not drawn
        let combo = *it % 3 == 0;
        let what = if combo { 9 + (*it / 3) % 2 } else { rng.below(9) };
        match what {
            // combined corruptions: one time stamp deleted (two tokens left: "missing label") or both kept, and a multi-byte
            // character put at a chosen byte offset of the line (error messages quote the line: every offset of a list from 8 to 256, one to three bytes before it)
            9 | 10 => {
                let s: String = chars.iter().collect();
                let mut line = if what == 9 { format!("{} {}", 1000 * rng.below(100000), s) } else { format!("0 {} {}", 1000 * rng.below(100000), s) };
                const TARGETS: [usize; 20] = [8, 12, 16, 20, 24, 32, 40, 48, 50, 56, 64, 72, 80, 96, 100, 120, 128, 200, 255, 256];
                let target = TARGETS[(*it / 6) % TARGETS.len()] - (1 + (*it / (6 * TARGETS.len())) % 3);
                let mut at = target.min(line.len());
                while !line.is_char_boundary(at) {
                    at -= 1;
                }
                line.insert(at, *rng.pick(&['é', 'あ', '💥']));
                chars = line.chars().collect();
            }
            0 => { let p = rng.below(chars.len()); chars.remove(p); }
            1 => { let p = rng.below(chars.len()); let c = chars[p]; chars.insert(p, c); }
            2 => { let p = rng.below(chars.len()); chars[p] = *rng.pick(&['あ', 'é', '\u{0}', '\u{202e}', '💥', ' ', '\t', '\n']); }
            3 => { let p = rng.below(chars.len()); chars.truncate(p); }
            4 => { let t = *rng.pick(&["1e400", "-1e400", "NaN", "-0", "1e-400", "99999999999999999999999999", "-5", "inf"]); let s: String = chars.iter().collect(); chars = format!("{} {} {}", t, rng.below(100000), s).chars().collect(); }
            5 => { let s: String = chars.iter().collect(); chars = format!("0  100 {}", s).chars().collect(); }
            6 => { let p = rng.below(chars.len()); chars.insert(p, ' '); }
            7 => { let s: String = chars.iter().collect(); let parts: Vec<&str> = s.split('/').collect(); let mut parts: Vec<String> = parts.iter().map(|x| x.to_string()).collect(); let i = rng.below(parts.len()); if rng.chance(0.5) { parts.remove(i); } else { let d = parts[i].clone(); parts.insert(i, d); } chars = parts.join("/").chars().collect(); }
            _ => { for _ in 0..3 { let p = rng.below(chars.len()); chars[p] = (32 + rng.below(95) as u8) as char; } }
        }
        lines[which] = chars.into_iter().collect();
        let outcome = match guarded(|| engine.synthesize(&lines[..])) {
            Ok(Ok(_)) => "ok".to_string(),
            Ok(Err(_)) => "err".to_string(),
            Err(p) => format!("panic: {}", p),
        };
        json!({"ev": "corrupt", "kind": what, "outcome": outcome, "line": lines[which]})
    });
    let mut out = Out::create(out_path);
    for e in evs {
        out.line(&e);
    }
    out.finish();
}
