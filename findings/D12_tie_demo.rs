use jbonsai::Engine;
#[test]
fn tie() {
    let mut e = Engine::load(&["models/hts_voice_nitech_jp_atr503_m001-1.05/nitech_jp_atr503_m001.htsvoice"]).unwrap();
    e.condition.set_fperiod(256);
    e.condition.set_phoneme_alignment_flag(true);
    let lab = "xx^xx-sil+d=o/A:xx+xx+xx/B:xx-xx_xx/C:xx_xx+xx/D:07+xx_xx/E:xx_xx!xx_xx-xx/F:xx_xx#xx_xx@xx_xx|xx_xx/G:2_1%0_xx_xx/H:xx_xx/I:xx-xx@xx+xx&xx-xx|xx+xx/J:3_16/K:19+49-199";
    // 12.5 frames exactly: 12.5 * 256 * 1e7 / 48000 = 666666.67 not integer; use 13.5*256e7/48000 = 720000
    let line = format!("0 720000 {}", lab);
    let w = e.synthesize(&[line.as_str()][..]).unwrap();
    println!("frames = {}", w.len() / 256);
    assert_eq!(w.len() / 256, 14);
}
