//! C20: condition setters clamp and round-trip.  Replays Gen_Condition behaviours.
use crate::eng::*;
use crate::util::*;
use jbonsai::Condition;
use serde_json::{json, Value};

fn lit(v: &Value) -> f64 {
    vs(v).parse::<f64>().unwrap_or_else(|_| die("bad f64 literal"))
}
fn ulit(v: &Value) -> usize {
    vs(v).parse::<usize>().unwrap_or_else(|_| die("bad usize literal"))
}

/// Compare every getter with the specification's image; returns the first differing field.
pub fn compare(c: &Condition, img: &Value, nstream: usize) -> Option<String> {
    if c.get_sampling_frequency() != ulit(&img["rate"]) {
        return Some(format!("rate: got {} expected {}", c.get_sampling_frequency(), img["rate"]));
    }
    if c.get_fperiod() != ulit(&img["fperiod"]) {
        return Some(format!("fperiod: got {} expected {}", c.get_fperiod(), img["fperiod"]));
    }
    let v = lit(&img["volume"]);
    if !((c.get_volume() - v).abs() <= 1e-9) {
        return Some(format!("volume: got {} expected {}", c.get_volume(), v));
    }
    for s in 0..nstream {
        if c.get_msd_threshold(s) != lit(&img["thr"][s]) {
            return Some(format!("thr[{}]: got {} expected {}", s, c.get_msd_threshold(s), img["thr"][s]));
        }
        if c.get_gv_weight(s) != lit(&img["gvw"][s]) {
            return Some(format!("gvw[{}]: got {} expected {}", s, c.get_gv_weight(s), img["gvw"][s]));
        }
    }
    if c.get_phoneme_alignment_flag() != vb(&img["align"]) {
        return Some(format!("align: got {}", c.get_phoneme_alignment_flag()));
    }
    for (name, got) in [("speed", c.get_speed()), ("alpha", c.get_alpha()), ("beta", c.get_beta()), ("halftone", c.get_additional_half_tone())] {
        if got != lit(&img[name]) {
            return Some(format!("{}: got {:e} expected {}", name, got, img[name]));
        }
    }
    None
}

pub fn apply(c: &mut Condition, st: &Value) {
    let s = vu(&st["s"]);
    let arg = &st["arg"];
    match vs(&st["set"]) {
        "rate" => c.set_sampling_frequency(ulit(arg)),
        "fperiod" => c.set_fperiod(ulit(arg)),
        "volume" => c.set_volume(lit(arg)),
        "thr" => c.set_msd_threshold(s, lit(arg)),
        "gvw" => c.set_gv_weight(s, lit(arg)),
        "align" => c.set_phoneme_alignment_flag(vs(arg) == "true"),
        "speed" => c.set_speed(lit(arg)),
        "alpha" => c.set_alpha(lit(arg)),
        "beta" => c.set_beta(lit(arg)),
        "halftone" => c.set_additional_half_tone(lit(arg)),
        other => die(&format!("unknown setter {}", other)),
    }
}

pub fn replay(cases_path: &str, out_path: &str) {
    let cases = read_jsonl(cases_path);
    let base = load_bundled();
    let nstream = base.voices.global_metadata().num_streams;
    let mut out = Out::create(out_path);
    let mut failed = 0;
    let mut steps = 0;
    for (i, case) in cases.iter().enumerate() {
        let mut engine = base.clone();
        let res = guarded(|| {
            if let Some(m) = compare(&engine.condition, &case["init"], nstream) {
                return Some((0usize, "default".to_string(), format!("freshly loaded engine: {}", m)));
            }
            for (j, st) in va(&case["hist"]).iter().enumerate() {
                apply(&mut engine.condition, st);
                if let Some(m) = compare(&engine.condition, &st["img"], nstream) {
                    let field = m.split(':').next().unwrap_or("").split('[').next().unwrap_or("").to_string();
                    return Some((j, format!("set_{}:{}", vs(&st["set"]), field), format!("after set {} [{}] := {}: {}", vs(&st["set"]), st["s"], st["arg"], m)));
                }
            }
            None
        });
        steps += va(&case["hist"]).len();
        match res {
            Ok(None) => {}
            Ok(Some((j, key, msg))) => {
                failed += 1;
                out.line(&json!({"case": i, "step": j, "key": key, "msg": msg, "input": case}));
            }
            Err(m) => {
                failed += 1;
                out.line(&json!({"case": i, "key": format!("panic:{}", m), "msg": m, "input": case}));
            }
        }
    }
    out.line(&json!({"summary": {"cases": cases.len(), "failed": failed, "steps": steps}}));
    out.finish();
}
