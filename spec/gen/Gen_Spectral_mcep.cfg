CONSTANTS Mode = "mcep"  Orders <- OrdersQ  Salts = {0, 1, 2, 3}  Alphas <- AlphasQ  Rates <- RatesQ  Betas = {0}  Stages = {1}
SPECIFICATION Spec
INVARIANTS Emit Pre
CHECK_DEADLOCK FALSE
