#[test]
fn flip() {
    let r = std::panic::catch_unwind(|| jbonsai::model::load_htsvoice_file(&"/tmp/flip.htsvoice").map(|_| ()).map_err(|e| e.to_string()));
    println!("{:?}", r.as_ref().map_err(|_| "PANIC"));
    assert!(r.is_ok());
}
