---- MODULE Gen_LabelLine ----
(* C17: every utterance of up to MaxLines lines over the line shapes and token tables, with the expected outcome. *)
EXTENDS LabelLine
CONSTANTS MaxLines, TimeIdx, LabelIdx, Forms
VARIABLES lines, form, phase
vars == <<lines, form, phase>>
LineSet == [shape : Shapes, t1 : TimeIdx, t2 : TimeIdx, lab : LabelIdx]
\* canonical representatives: unused fields fixed so that shapes without times / labels are not duplicated
Canon(ln) == /\ (ln.shape \in {"E", "SP"} => ln.t1 = 1 /\ ln.t2 = 1 /\ ln.lab = 1)
             /\ (ln.shape = "L" => ln.t1 = 1 /\ ln.t2 = 1)
             /\ (ln.shape = "TT" => ln.lab = 1)
             /\ (ln.shape = "TL" => ln.t2 = 1)
             /\ (ln.shape \in {"TTLX", "LEAD", "DBL", "TAB"} => ln.t2 = 2 /\ ln.lab <= 2)
Init == lines = <<>> /\ form = "slice" /\ phase = 0
Next == /\ phase = 0
        /\ \/ Len(lines) < MaxLines /\ \E ln \in LineSet : Canon(ln) /\ lines' = Append(lines, ln) /\ UNCHANGED <<form, phase>>
           \/ Len(lines) > 0 /\ \E f \in Forms : form' = f /\ phase' = 1 /\ UNCHANGED lines
Spec == Init /\ [][Next]_vars
Emit == phase = 1 => PrintT(<<"CASE", ToJson([form |-> form, text |-> [i \in 1..Len(lines) |-> LineText(lines[i])],
                                             expect |-> UttResult(lines),
                                             clean |-> [i \in 1..Len(UttResult(lines).labels) |-> LabelTokens[UttResult(lines).labels[i]]]])>>)
Sane == OracleSane
====
