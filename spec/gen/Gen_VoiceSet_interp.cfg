CONSTANTS Mode = "interp"  L = 2  Fams <- FamsA  Salts = {0}  NVoices = 2
SPECIFICATION Spec
INVARIANTS Emit WeightsValid
CHECK_DEADLOCK FALSE
