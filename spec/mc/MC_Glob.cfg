CONSTANTS PLen = 4  TLen = 5
SPECIFICATION Spec
INVARIANT Equivalent
CHECK_DEADLOCK FALSE
