//! C18: malformed voice files.  Applies the specification's fault lists (Gen_Faults) to base files and
//! loads the result in a memory-limited worker subprocess under a watchdog.
use crate::util::*;
use crate::voicegen;
use jbonsai::model::load_htsvoice_file;
use jbonsai::Engine;
use serde_json::{json, Value};
use std::collections::HashMap;
use std::io::{BufRead, BufReader, Write};
use std::process::{Command, Stdio};
use std::sync::mpsc;
use std::time::Duration;

struct Base {
    lines: Vec<Vec<u8>>, // header lines without newline
    toks: Vec<Value>,    // data tokens (rendered) or a single raw blob
    raw: Vec<u8>,        // data bytes for file bases
}

fn load_bases(cases: &[Value]) -> HashMap<i64, Base> {
    let mut m = HashMap::new();
    for c in cases {
        match vs(&c["kind"]) {
            "base" => {
                let id = vi(&c["id"]);
                if m.contains_key(&id) {
                    continue;
                }
                let lines = va(&c["voice"]["header"]).iter().map(|l| vs(l).as_bytes().to_vec()).collect();
                m.insert(id, Base { lines, toks: va(&c["voice"]["data"]).clone(), raw: vec![] });
            }
            "filebase" => {
                let bytes = std::fs::read(vs(&c["path"])).unwrap_or_else(|e| die(&e.to_string()));
                let marker = b"[DATA]\n";
                let pos = bytes.windows(marker.len()).position(|w| w == marker).unwrap_or_else(|| die("no [DATA]")) + marker.len();
                let head = &bytes[..pos - 1];
                let lines: Vec<Vec<u8>> = head.split(|b| *b == b'\n').map(|l| l.to_vec()).collect();
                m.insert(vi(&c["id"]), Base { lines, toks: vec![], raw: bytes[pos..].to_vec() });
            }
            _ => {}
        }
    }
    m
}

fn split_kv(line: &[u8]) -> (Vec<u8>, Vec<u8>) {
    match line.iter().position(|b| *b == b':') {
        Some(p) => (line[..p].to_vec(), line[p + 1..].to_vec()),
        None => (line.to_vec(), vec![]),
    }
}

/// Apply a fault list; purely mechanical.
pub fn apply(base: &Base, ops: &[Value]) -> Vec<u8> {
    // a "doc" fault replaces the whole file by another rendering of the specification (structural defect with a consistent layout)
    let replaced: Option<Base> = ops.iter().rev().find(|o| vs(&o["op"]) == "doc").map(|o| Base {
        lines: va(&o["voice"]["header"]).iter().map(|l| vs(l).as_bytes().to_vec()).collect(),
        toks: va(&o["voice"]["data"]).clone(),
        raw: vec![],
    });
    let base = replaced.as_ref().unwrap_or(base);
    let mut lines = base.lines.clone();
    let mut toks = base.toks.clone();
    let mut late: Vec<&Value> = Vec::new();
    for op in ops {
        let idx = |k: &str| -> usize { vu(&op[k]).wrapping_sub(1) };
        match vs(&op["op"]) {
            "set" => {
                let i = idx("line");
                if i < lines.len() {
                    let (k, _) = split_kv(&lines[i]);
                    let mut l = k;
                    l.push(b':');
                    l.extend_from_slice(vs(&op["val"]).as_bytes());
                    lines[i] = l;
                }
            }
            "swap" => {
                let (a, b) = (idx("a"), idx("b"));
                if a < lines.len() && b < lines.len() {
                    let (ka, va_) = split_kv(&lines[a]);
                    let (kb, vb_) = split_kv(&lines[b]);
                    lines[a] = [ka, vec![b':'], vb_].concat();
                    lines[b] = [kb, vec![b':'], va_].concat();
                }
            }
            "del" => {
                let i = idx("line");
                if i < lines.len() {
                    lines.remove(i);
                }
            }
            "dup" => {
                let i = idx("line");
                if i < lines.len() {
                    let l = lines[i].clone();
                    lines.insert(i, l);
                }
            }
            "nonutf8" => {
                let i = idx("line");
                if i < lines.len() {
                    lines[i].push(0xFF);
                }
            }
            "key" => {
                // the key of a header line rewritten: brackets out of order, doubled, missing, empty
                let i = idx("line");
                if i < lines.len() {
                    let (k, v) = split_kv(&lines[i]);
                    let ks = String::from_utf8_lossy(&k).to_string();
                    let (name, sub) = match (ks.find('['), ks.rfind(']')) {
                        (Some(a), Some(b)) if a < b => (ks[..a].to_string(), ks[a + 1..b].to_string()),
                        _ => (ks.clone(), "X".to_string()),
                    };
                    let nk = match vs(&op["how"]) {
                        "swap" => format!("{}]{}[", name, sub),
                        "only" => "][".to_string(),
                        "open" => format!("{}[{}", name, sub),
                        "close" => format!("{}{}]", name, sub),
                        "dopen" => format!("{}[[{}]", name, sub),
                        "dclose" => format!("{}[{}]]", name, sub),
                        "empty" => format!("{}[]", name),
                        "noname" => format!("[{}]", sub),
                        "late" => format!("{}]{}[{}]", name, sub, sub),
                        _ => format!("{}[{}]x", name, sub),
                    };
                    // "nocolon" / "semicolon": the key kept, the separating colon dropped or turned into another character (one flipped bit)
                    lines[i] = match vs(&op["how"]) {
                        "nocolon" => [k.clone(), v].concat(),
                        "semicolon" => [k.clone(), vec![b';'], v].concat(),
                        _ => [nk.into_bytes(), vec![b':'], v].concat(),
                    };
                }
            }
            "mbchar" => {
                // a valid multi-byte UTF-8 character (U+FF11 FULLWIDTH DIGIT ONE, 3 bytes; U+00E9, 2 bytes) at a place
                // where the header grammar expects an ASCII digit, boolean, colon or name
                let i = idx("line");
                if i < lines.len() {
                    let (k, v) = split_kv(&lines[i]);
                    let ch: &[u8] = if vu(&op["w"]) == 3 { "\u{ff11}".as_bytes() } else { "\u{e9}".as_bytes() };
                    lines[i] = match vs(&op["at"]) {
                        "first" => [k, vec![b':'], ch.to_vec(), v.get(1..).unwrap_or(&[]).to_vec()].concat(),
                        "before" => [k, vec![b':'], ch.to_vec(), v].concat(),
                        "last" => [k, vec![b':'], v, ch.to_vec()].concat(),
                        "key" => [k, ch.to_vec(), vec![b':'], v].concat(),
                        _ => [ch.to_vec(), k, vec![b':'], v].concat(),
                    };
                }
            }
            "tokdel" => {
                let i = idx("i");
                if i < toks.len() {
                    toks.remove(i);
                }
            }
            "toku32" => {
                let i = idx("i");
                if i < toks.len() {
                    toks[i] = json!({"t": "u32", "v": op["v"]});
                }
            }
            "toktxt" => {
                let i = idx("i");
                if i < toks.len() {
                    toks[i] = json!({"t": "txt", "s": op["s"]});
                }
            }
            "flip" | "cut" => late.push(op),
            "doc" => {}
            other => die(&format!("unknown fault op {}", other)),
        }
    }
    let mut bytes: Vec<u8> = Vec::new();
    for l in &lines {
        bytes.extend_from_slice(l);
        bytes.push(b'\n');
    }
    if base.toks.is_empty() {
        bytes.extend_from_slice(&base.raw);
    } else {
        bytes.extend_from_slice(&voicegen::render(&json!({"header": [], "data": toks})));
    }
    for op in late {
        let at = vu(&op["at"]);
        match vs(&op["op"]) {
            "flip" => {
                if at < bytes.len() {
                    // "x80": the byte with its high bit set (a lone continuation / lead byte: not UTF-8); "xFF": 0xFF
                    bytes[at] = match vs(&op["ch"]) {
                        "x80" => bytes[at] | 0x80,
                        "xFF" => 0xFF,
                        c => c.as_bytes()[0],
                    };
                }
            }
            _ => bytes.truncate(at),
        }
    }
    bytes
}

/// worker: processes cases[start..], one result line per case on stdout
pub fn worker(cases_path: &str, start: usize) {
    let cases = read_jsonl(cases_path);
    let bases = load_bases(&cases);
    let stdout = std::io::stdout();
    let dir = std::env::var("VERIF_TMP").unwrap_or_else(|_| "/verif/work/tmp".to_string());
    std::fs::create_dir_all(&dir).ok();
    let path = format!("{}/c18_{}.htsvoice", dir, std::process::id());
    for (i, c) in cases.iter().enumerate().skip(start) {
        if vs(&c["kind"]) != "fault" {
            continue;
        }
        {
            let mut o = stdout.lock();
            writeln!(o, "S {}", i).ok();
            o.flush().ok();
        }
        let base = bases.get(&vi(&c["base"])).unwrap_or_else(|| die("fault without base"));
        let bytes = apply(base, va(&c["ops"]));
        std::fs::write(&path, &bytes).unwrap_or_else(|e| die(&e.to_string()));
        let r = guarded(|| match load_htsvoice_file(&path) {
            Ok(_) => "voice",
            Err(_) => "error",
        });
        let (kind, msg) = match r {
            Ok("voice") => match guarded(|| Engine::load(&[&path]).is_ok()) {
                Ok(true) => ("voice", String::new()),
                Ok(false) => ("voice-engine-error", String::new()),
                Err(m) => ("panic", format!("Engine::load: {}", m)),
            },
            Ok(k) => (k, String::new()),
            Err(m) => ("panic", m),
        };
        let mut o = stdout.lock();
        writeln!(o, "R {} {} {}", i, kind, msg.replace('\n', " ")).ok();
        o.flush().ok();
    }
    std::fs::remove_file(&path).ok();
    println!("END");
}

/// parent: runs workers under `ulimit -v` and a per-case watchdog
pub fn run(cases_path: &str, out_path: &str) {
    let cases = read_jsonl(cases_path);
    let nfault = cases.iter().filter(|c| vs(&c["kind"]) == "fault").count();
    let exe = std::env::current_exe().unwrap();
    let mut results: HashMap<usize, (String, String)> = HashMap::new();
    let mut start = 0usize;
    let mut restarts = 0usize;
    while start < cases.len() {
        let mut child = Command::new("sh")
            .arg("-c")
            .arg(format!("ulimit -v 2097152; exec {} c18-worker {} {}", exe.display(), cases_path, start))
            .stdout(Stdio::piped())
            .stderr(Stdio::piped())
            .spawn()
            .unwrap_or_else(|e| die(&e.to_string()));
        let so = child.stdout.take().unwrap();
        let (tx, rx) = mpsc::channel::<String>();
        let t = std::thread::spawn(move || {
            for l in BufReader::new(so).lines().map_while(Result::ok) {
                if tx.send(l).is_err() {
                    break;
                }
            }
        });
        let mut current: Option<usize> = None;
        let mut ended = false;
        let mut timed_out = false;
        loop {
            match rx.recv_timeout(Duration::from_secs(20)) {
                Ok(l) => {
                    if l == "END" {
                        ended = true;
                        break;
                    } else if let Some(r) = l.strip_prefix("S ") {
                        current = r.trim().parse().ok();
                    } else if let Some(r) = l.strip_prefix("R ") {
                        let mut it = r.splitn(3, ' ');
                        let i: usize = it.next().unwrap().parse().unwrap();
                        let kind = it.next().unwrap_or("").to_string();
                        let msg = it.next().unwrap_or("").to_string();
                        results.insert(i, (kind, msg));
                        current = None;
                    }
                }
                Err(mpsc::RecvTimeoutError::Timeout) => {
                    timed_out = true;
                    break;
                }
                Err(mpsc::RecvTimeoutError::Disconnected) => break,
            }
        }
        if timed_out {
            child.kill().ok();
        }
        let status = child.wait().ok();
        let mut err = String::new();
        if let Some(mut se) = child.stderr.take() {
            use std::io::Read;
            se.read_to_string(&mut err).ok();
        }
        t.join().ok();
        if ended {
            break;
        }
        restarts += 1;
        match current {
            Some(i) => {
                let tail: String = err.lines().rev().take(3).collect::<Vec<_>>().join(" | ");
                let kind = if timed_out { "timeout" } else { "abort" };
                results.insert(i, (kind.to_string(), format!("{:?} {}", status, tail)));
                start = i + 1;
            }
            None => {
                if restarts > 50 {
                    die("c18 worker keeps dying outside a case");
                }
                // died between cases: skip forward past the last finished one
                start = results.keys().max().map(|m| m + 1).unwrap_or(start + 1);
            }
        }
        if restarts > 2000 {
            die("too many worker restarts");
        }
    }
    let mut out = Out::create(out_path);
    let mut counts: HashMap<String, usize> = HashMap::new();
    let mut failed = 0;
    for (i, c) in cases.iter().enumerate() {
        if vs(&c["kind"]) != "fault" {
            continue;
        }
        let (kind, msg) = results.get(&i).cloned().unwrap_or(("missing".into(), String::new()));
        *counts.entry(kind.clone()).or_insert(0) += 1;
        if kind != "voice" && kind != "error" && kind != "voice-engine-error" {
            failed += 1;
            out.line(&json!({"case": i, "key": format!("{}:{}", kind, msg), "msg": format!("{} while loading a faulted file: {}", kind, msg), "input": c}));
        }
    }
    out.line(&json!({"summary": {"cases": nfault, "failed": failed, "voice": counts.get("voice").copied().unwrap_or(0),
        "error": counts.get("error").copied().unwrap_or(0), "engine_error": counts.get("voice-engine-error").copied().unwrap_or(0),
        "panic": counts.get("panic").copied().unwrap_or(0), "abort": counts.get("abort").copied().unwrap_or(0),
        "timeout": counts.get("timeout").copied().unwrap_or(0), "worker_restarts": restarts}}));
    out.finish();
}
