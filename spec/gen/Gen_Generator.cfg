CONSTANTS MaxTotal = 5  MaxBuf = 3  L = 5  Totals = {0,1,2,3,5}
SPECIFICATION GSpec
INVARIANTS Emit PrefixOfOneShot CursorExact FinishCompletes SuffixExact
CHECK_DEADLOCK FALSE
