"""Shared machinery for /verif/bin/check: TLC runs, harness runs, evidence, findings.

Exit code contract (DESIGN 2.4): 0 = held on everything explored, 1 = a line
`VIOLATION property=<id> replay=<path>` was printed, 2 = tool error / timeout.
"""
import json, os, re, subprocess, sys, time, hashlib, shutil

VERIF = os.path.dirname(os.path.dirname(os.path.abspath(__file__)))
REPO = os.environ.get("VERIF_REPO", "/repo")
HARNESS = os.path.join(VERIF, "harness")
JBV = os.path.join(HARNESS, "target", "release", "jbv")
SPEC = os.path.join(VERIF, "spec")
WORK = os.path.join(VERIF, "work")
TLC = os.path.join(VERIF, "bin", "tlc.sh")
FINDINGS = os.path.join(VERIF, "known_findings.txt")


class ToolError(Exception):
    pass


def log(*a):
    print(*a, flush=True)


class Ctx:
    def __init__(self, pid, tier, seed):
        self.pid = pid
        self.tier = tier
        self.seed = seed
        self.t0 = time.time()
        self.dir = os.path.join(WORK, pid)
        shutil.rmtree(self.dir, ignore_errors=True)
        os.makedirs(self.dir, exist_ok=True)
        self.states = 0
        self.transitions = 0
        self.traces = 0          # replayed cases + validated trace events (impl-bound)
        self.evaluations = 0
        self.distinct = set()
        self.samples = []
        self.violations = 0
        self.known = 0
        self.stages = []
        self.exhaustive = True
        self.assumptions = []
        self.trusted = ["TLC 1.8.0 (tla2tools.jar)", "CommunityModules Json/IOUtils bridge",
                        "harness/src (drivers, digests, measurement functions)"]
        self.findings = load_findings()
        self.seen_keys = set()

    def path(self, name):
        return os.path.join(self.dir, name)

    def quick(self):
        return self.tier == "quick"

    def sample(self, s):
        if len(self.samples) < 6:
            self.samples.append(s)

    def stage(self, name, **kw):
        d = {"stage": name}
        d.update(kw)
        self.stages.append(d)
        log("[%s] %s %s" % (self.pid, name, " ".join("%s=%s" % (k, v) for k, v in kw.items())))

    # ---- findings / violations
    def violation(self, key, what, replay_obj):
        """Report one violating case.  `key` identifies the finding class."""
        key = norm_key(key)
        if (self.pid, key) in self.seen_keys:
            return
        self.seen_keys.add((self.pid, key))
        if (self.pid, key) in self.findings:
            self.known += 1
            log("KNOWN-FINDING: property=%s key=%s %s" % (self.pid, key, what))
            return
        self.violations += 1
        h = hashlib.sha1(key.encode()).hexdigest()[:10]
        rp = os.path.join(VERIF, "work", "replay", "%s_%s.json" % (self.pid, h))
        os.makedirs(os.path.dirname(rp), exist_ok=True)
        with open(rp, "w") as f:
            json.dump({"property": self.pid, "key": key, "what": what, "case": replay_obj}, f, indent=1, default=str)
        log("VIOLATION property=%s replay=%s" % (self.pid, rp))
        log("  key=%s :: %s" % (key, what[:600]))


def norm_key(k):
    k = re.sub(r"\d+", "N", str(k))
    k = re.sub(r"\s+", " ", k).strip()
    return k[:200]


def load_findings():
    out = set()
    if not os.path.exists(FINDINGS):
        return out
    for line in open(FINDINGS):
        line = line.strip()
        m = re.match(r"finding:\s+property=(\S+)\s+key=(.*?)\s+::", line)
        if m:
            out.add((m.group(1), norm_key(m.group(2))))
    return out


# --------------------------------------------------------------------------- harness

def build_harness():
    t = time.time()
    env = dict(os.environ)
    env["CARGO_NET_OFFLINE"] = "true"
    p = subprocess.run(["cargo", "build", "--release", "--quiet"], cwd=HARNESS, env=env,
                       stdout=subprocess.PIPE, stderr=subprocess.STDOUT, text=True)
    if p.returncode != 0:
        log(p.stdout[-4000:])
        raise ToolError("harness build failed")
    return time.time() - t


def run_jbv(args, timeout=3600, env=None, stdin=None):
    e = dict(os.environ)
    e["RUST_BACKTRACE"] = "0"
    if env:
        e.update(env)
    try:
        p = subprocess.run([JBV] + [str(a) for a in args], stdout=subprocess.PIPE, stderr=subprocess.PIPE,
                           text=True, timeout=timeout, env=e, input=stdin)
    except subprocess.TimeoutExpired:
        raise ToolError("harness timeout: %s" % (args,))
    return p


def read_jsonl(path):
    out = []
    with open(path) as f:
        for line in f:
            line = line.strip()
            if line:
                out.append(json.loads(line))
    return out


def write_jsonl(path, rows):
    with open(path, "w") as f:
        for r in rows:
            f.write(json.dumps(r, separators=(",", ":")) + "\n")


# --------------------------------------------------------------------------- TLC

class TlcResult:
    def __init__(self, out, rc, wall):
        self.out = out
        self.rc = rc
        self.wall = wall
        self.ok = "Model checking completed. No error has been found." in out or \
                  ("Finished in" in out and rc == 0)
        self.generated = 0
        self.distinct = 0
        m = re.findall(r"(\d+) states generated, (\d+) distinct states found", out)
        if m:
            self.generated, self.distinct = int(m[-1][0]), int(m[-1][1])
        else:
            m = re.findall(r"The number of states generated: (\d+)", out)
            if m:
                self.generated = self.distinct = int(m[-1])
        self.invariant = None
        m = re.search(r"Invariant (\S+) is violated", out)
        if m:
            self.invariant = m.group(1)
        self.overflow = "Overflow when computing" in out
        self.error_lines = [l for l in out.splitlines() if l.startswith("Error:")]

    def cases(self):
        out = []
        for line in self.out.splitlines():
            if line.startswith('<<"CASE", '):
                out.append(json.loads(json.loads(line[10:-2])))
        return out


def run_tlc(ctx, name, cfg, tla, workers=8, env=None, extra=None, timeout=1800, bfs=False, xmx=None):
    """Run TLC from the directory holding `tla` (so EXTENDS resolves); returns TlcResult."""
    meta = ctx.path("tlc_" + name)
    shutil.rmtree(meta, ignore_errors=True)
    e = dict(os.environ)
    if env:
        e.update({k: str(v) for k, v in env.items()})
    if bfs:
        e["VERIF_TLC_QUEUE"] = " "
    if xmx:
        e["VERIF_TLC_XMX"] = xmx
    args = [TLC, str(workers), meta, cfg, tla] + (extra or [])
    t = time.time()
    try:
        p = subprocess.run(args, cwd=os.path.dirname(tla), env=e, stdout=subprocess.PIPE,
                           stderr=subprocess.STDOUT, text=True, timeout=timeout)
    except subprocess.TimeoutExpired:
        raise ToolError("TLC timeout in %s" % name)
    finally:
        shutil.rmtree(meta, ignore_errors=True)
    r = TlcResult(p.stdout, p.returncode, time.time() - t)
    with open(ctx.path("tlc_%s.out" % name), "w") as f:
        f.write(p.stdout)
    if r.overflow:
        raise ToolError("TLC integer overflow in %s (see %s)" % (name, ctx.path("tlc_%s.out" % name)))
    return r


def spec_path(*p):
    return os.path.join(SPEC, *p)


def mc(ctx, name, cfg, tla, workers=8, env=None, extra=None, timeout=1800, must_hold=True):
    """Model-check a spec config; the design-level invariants must hold (else tool error:
    a broken *specification* is not a violation of the implementation)."""
    r = run_tlc(ctx, "mc_" + name, cfg, tla, workers=workers, env=env, extra=extra, timeout=timeout, bfs=True)
    ctx.stage("MC " + name, states=r.distinct, generated=r.generated, wall="%.1fs" % r.wall, ok=r.ok)
    if must_hold and not r.ok:
        log(r.out[-3000:])
        raise ToolError("specification check %s failed (spec-level error, not an implementation verdict)" % name)
    ctx.states += r.distinct
    ctx.transitions += r.generated
    return r


def gen(ctx, name, cfg, tla, workers=8, env=None, extra=None, timeout=1800, simulate=None, sim_workers=1):
    """Run a Gen_* config (BFS or -simulate) and return the emitted cases."""
    ex = list(extra or [])
    w = workers
    if simulate:
        n, depth = simulate
        ex += ["-simulate", "num=%d" % n, "-depth", str(depth), "-seed", str(ctx.seed)]
        w = sim_workers          # num is per worker
        ctx.exhaustive = False
    r = run_tlc(ctx, "gen_" + name, cfg, tla, workers=w, env=env, extra=ex, timeout=timeout, bfs=True)
    cases = r.cases()
    if not r.ok and not simulate:
        log(r.out[-3000:])
        raise ToolError("generator spec %s failed" % name)
    if simulate and r.error_lines:
        log(r.out[-3000:])
        raise ToolError("generator spec %s failed (simulate)" % name)
    ctx.stage("GEN " + name, cases=len(cases), states=r.distinct, wall="%.1fs" % r.wall)
    ctx.states += r.distinct
    ctx.transitions += r.generated
    if not cases:
        raise ToolError("generator spec %s emitted no cases" % name)
    return cases


def validate_trace(ctx, name, cfg, tla, trace_path, env=None, timeout=3600, xmx=None):
    """Trace validation: TLC must consume every event of the ndjson trace.
    Returns (accepted, n_events, first_unmatched_index_or_None, out)."""
    n = sum(1 for l in open(trace_path) if l.strip())
    if n == 0:
        raise ToolError("empty trace %s" % trace_path)
    e = {"TRACE": trace_path}
    if env:
        e.update(env)
    r = run_tlc(ctx, "trace_" + name, cfg, tla, workers=1, env=e, timeout=timeout, xmx=xmx)
    accepted = r.ok
    bad = None
    m = re.search(r'"REJECT at",\s*(\d+)', r.out)
    if m:
        bad = int(m.group(1))
    if not accepted and bad is None:
        # evaluation error inside the trace spec is a tool error unless postcondition said REJECT
        if "POSTCONDITION" not in r.out and "Accepted" not in r.out:
            log(r.out[-3000:])
            raise ToolError("trace spec %s crashed" % name)
        log(r.out[-2000:])
        raise ToolError("trace spec %s rejected without position" % name)
    ctx.stage("TRACE " + name, events=n, accepted=accepted, wall="%.1fs" % r.wall, states=r.distinct)
    ctx.states += r.distinct
    ctx.transitions += r.generated
    return accepted, n, bad, r.out


def write_evidence(ctx, level, rule, extra_cov=None):
    cov = {
        "states": max(1, ctx.states),
        "transitions": max(1, ctx.transitions),
        "traces_validated_against_impl": ctx.traces,
        "samples": ctx.samples[:6] if ctx.samples else ["(no sample recorded)"],
        "evaluations": max(1, ctx.evaluations),
        "distinct_nontrivial": len(ctx.distinct),
        "rule": rule,
        "exhaustive": bool(ctx.exhaustive),
        "stages": ctx.stages,
        "trusted_base": ctx.trusted,
        "known_findings_seen": ctx.known,
    }
    if extra_cov:
        cov.update(extra_cov)
    ev = {
        "property_id": ctx.pid,
        "tier": ctx.tier,
        "seed": ctx.seed,
        "level": level,
        "coverage": cov,
        "assumptions": ctx.assumptions,
        "wall_s": round(time.time() - ctx.t0, 2),
        "violations": ctx.violations,
    }
    os.makedirs(os.path.join(VERIF, "evidence"), exist_ok=True)
    with open(os.path.join(VERIF, "evidence", ctx.pid + ".json"), "w") as f:
        json.dump(ev, f, indent=1, default=str)
    return ev
