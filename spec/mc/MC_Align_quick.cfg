CONSTANTS D = 4  NL = {0, 1, 2, 3}  NState = {1, 2}  ParamSets = {1, 3}
  Ends <- EndsSmall  Starts <- StartsSmall
SPECIFICATION Spec
INVARIANTS AlignLaw Covers NoVanish FillLaw
CHECK_DEADLOCK FALSE
