---- MODULE Gen_VoiceSet ----
(* Replay cases for C19 (compatibility, weight histories) and C10 (interpolated parameters). *)
EXTENDS VoiceSet, Json, SequencesExt
CONSTANTS Mode, L, Fams, Salts, NVoices
VARIABLES st, hist
vars == <<st, hist>>

BaseFam(k) == Fams[k]
\* single-field variants of a base document (the nine fields of C19) and compatible siblings
Variant(f, kind) ==
  LET d == Doc(f) IN
  CASE kind = "same"    -> Doc([f EXCEPT !.salt = f.salt + 6])
    [] kind = "rate"    -> [d EXCEPT !.rate = 8000]
    [] kind = "fperiod" -> [d EXCEPT !.fperiod = 5]
    [] kind = "nstate"  -> Doc([f EXCEPT !.nstate = f.nstate + 1])
    [] kind = "nstream" -> Doc([f EXCEPT !.nstream = 5 - f.nstream])
    [] kind = "vlen"    -> [d EXCEPT !.streams[1] = Stream(f, "MCP", "mcp_", McpVlen(f) + 1, WinSet(f.winset), FALSE, McpOpts(f), f.gv, 0)]
    [] kind = "nwin"    -> [d EXCEPT !.streams[1] = Stream(f, "MCP", "mcp_", McpVlen(f), WinSet(IF f.winset = 1 THEN 2 ELSE 1), FALSE, McpOpts(f), f.gv, 0)]
    [] kind = "msd"     -> [d EXCEPT !.streams[2] = Stream(f, "LF0", "lf0_", 1, WinSet(f.winset), FALSE, <<>>, d.streams[2].usegv, 1)]
    [] kind = "gv"      -> [d EXCEPT !.streams[1] = Stream(f, "MCP", "mcp_", McpVlen(f), WinSet(f.winset), FALSE, McpOpts(f), ~f.gv, 0)]
    [] kind = "option"  -> [d EXCEPT !.streams[1].opts = <<"ALPHA=0.5">> \o Tail(d.streams[1].opts)]
    \* a later voice whose option list is a proper prefix-less subset / a superset of the first voice's
    [] kind = "option-dropped" -> [d EXCEPT !.streams[1].opts = Tail(d.streams[1].opts)]
    [] kind = "option-added"   -> [d EXCEPT !.streams[1].opts = Append(d.streams[1].opts, "X=1")]
    \* the same kinds of difference on the LAST stream (so that a comparison that stops early is noticed)
    [] kind = "last-vlen" -> LET n == Len(d.streams)  ls == d.streams[n] IN
                             [d EXCEPT !.streams[n] = Stream(f, ls.name, ls.pre, ls.vlen + 2, ls.wins, ls.msd, ls.opts, ls.usegv, n - 1)]
    [] kind = "last-option" -> [d EXCEPT !.streams[Len(d.streams)].opts = <<"X=1">>]
Kinds == <<"same", "rate", "fperiod", "nstate", "nstream", "vlen", "nwin", "msd", "gv", "option", "last-vlen", "last-option", "option-dropped", "option-added">>

\* ---------------- mode "compat": sets of 0..3 voices built from a base and variants
CompatNext == /\ st = "init"
              /\ \E k \in 1..Len(Fams), n \in 0..3 : \E ks \in [1..n -> 1..Len(Kinds)] :
                    /\ hist' = [fam |-> k, kinds |-> [i \in 1..n |-> Kinds[ks[i]]]]
                    /\ st' = "done"
CompatDocs == [i \in 1..Len(hist.kinds) |-> IF i = 1 /\ hist.kinds[1] = "same" THEN Doc(BaseFam(hist.fam))
                                             ELSE Variant(BaseFam(hist.fam), hist.kinds[i])]
\* first voice is always the base unless the list is empty: kinds[1] is forced to "same" by the constraint below
\* ---- "exactly one metadata field differs": the metadata a voice carries once loaded, as a record.  A file cannot differ in
\* NUM_STREAMS alone (the stream list would differ too), a loaded Voice can (public fields): the harness mutates one field of a
\* copy of the loaded base voice.  Two voices may be combined iff their metadata records are equal.
Meta(d) == [rate |-> d.rate, fperiod |-> d.fperiod, nstate |-> d.nstate, nstream |-> Len(d.streams),
            stream_type |-> [s \in 1..Len(d.streams) |-> d.streams[s].name],
            streams |-> [s \in 1..Len(d.streams) |-> [vlen |-> d.streams[s].vlen, nwin |-> Len(d.streams[s].wins), msd |-> d.streams[s].msd,
                                                      usegv |-> d.streams[s].usegv, opts |-> d.streams[s].opts]]]
MetaFields == {"none", "rate", "fperiod", "nstate", "nstream", "stream_type"}
StreamFields == {"vlen", "nwin", "msd", "usegv", "opts"}
Mutate(m, f, s) ==
  CASE f = "none" -> m
    [] f = "rate" -> [m EXCEPT !.rate = m.rate + 1]
    [] f = "fperiod" -> [m EXCEPT !.fperiod = m.fperiod + 1]
    [] f = "nstate" -> [m EXCEPT !.nstate = m.nstate + 1]
    [] f = "nstream" -> [m EXCEPT !.nstream = m.nstream + 1]
    [] f = "stream_type" -> [m EXCEPT !.stream_type[s] = "XXX"]
    [] f = "vlen" -> [m EXCEPT !.streams[s].vlen = m.streams[s].vlen + 1]
    [] f = "nwin" -> [m EXCEPT !.streams[s].nwin = m.streams[s].nwin + 1]
    [] f = "msd" -> [m EXCEPT !.streams[s].msd = ~m.streams[s].msd]
    [] f = "usegv" -> [m EXCEPT !.streams[s].usegv = ~m.streams[s].usegv]
    [] f = "opts" -> [m EXCEPT !.streams[s].opts = Append(m.streams[s].opts, "X=1")]
FieldCases(k) == LET d == Doc(BaseFam(k))  m == Meta(d)  ns == Len(d.streams) IN
  { [field |-> f, stream |-> 0, n |-> n, pos |-> p, ok |-> (Mutate(m, f, 1) = m)] : f \in MetaFields \ {"stream_type"}, n \in 2..3, p \in 2..3 }
  \cup { [field |-> f, stream |-> s, n |-> n, pos |-> p, ok |-> (Mutate(m, f, s) = m)] : f \in StreamFields \cup {"stream_type"}, s \in 1..ns, n \in 2..3, p \in 2..3 }
FieldEmit == (st = "done" /\ Len(hist.kinds) = 0) =>
   PrintT(<<"CASE", ToJson([kind |-> "field", voice |-> Render(Doc(BaseFam(hist.fam))),
                            cases |-> SetToSeq({c \in FieldCases(hist.fam) : c.pos <= c.n})])>>)
CompatEmit == FieldEmit /\ (st = "done" /\ (Len(hist.kinds) = 0 \/ hist.kinds[1] = "same")) =>
   PrintT(<<"CASE", ToJson([kind |-> "compat", kinds |-> hist.kinds,
                            voices |-> [i \in 1..Len(hist.kinds) |-> Render(CompatDocs[i])],
                            ok |-> SetOK(CompatDocs)])>>)

\* ---------------- mode "weights": histories of updates on a set of NVoices compatible voices
NStreamW == 3
Cands == << [w |-> <<8, 0>>, tag |-> "ok"], [w |-> <<0, 8>>, tag |-> "ok"], [w |-> <<4, 4>>, tag |-> "ok"],
            [w |-> <<-4, 12>>, tag |-> "ok"], [w |-> <<10, -2>>, tag |-> "ok"], [w |-> <<6, 1, 1>>, tag |-> "ok"],
            [w |-> <<0, 0, 8>>, tag |-> "ok"], [w |-> <<8>>, tag |-> "ok"], [w |-> <<4, 2>>, tag |-> "ok"],
            [w |-> <<8, 8>>, tag |-> "ok"], [w |-> <<4, 4>>, tag |-> "eps"], [w |-> <<4, 4>>, tag |-> "nan"],
            [w |-> <<2, 2, 2>>, tag |-> "ok"], [w |-> <<3, 3, 2>>, tag |-> "eps"], [w |-> <<>>, tag |-> "ok"] >>
AvgW == <<>>       \* marker for the initial vector 1/nvoices each (not dyadic for 3 voices): kept symbolic
InitEff == [dur |-> AvgW, par |-> [s \in 1..NStreamW |-> AvgW], gv |-> [s \in 1..NStreamW |-> AvgW]]
Apply(eff, q, s, c) == IF ~Valid(c, NVoices) THEN eff
                       ELSE CASE q = "dur" -> [eff EXCEPT !.dur = c.w]
                              [] q = "par" -> [eff EXCEPT !.par[s] = c.w]
                              [] q = "gv"  -> [eff EXCEPT !.gv[s] = c.w]
WeightsInit == st = InitEff /\ hist = <<>>
WeightsNext == \/ /\ Len(hist) < L
                  /\ \E q \in {"dur", "par", "gv"}, s \in 1..NStreamW, ci \in 1..Len(Cands) :
                      /\ (q = "dur" => s = 1)
                      /\ st' = Apply(st, q, s, Cands[ci])
                      /\ hist' = Append(hist, [q |-> q, s |-> s - 1, w |-> Cands[ci].w, tag |-> Cands[ci].tag,
                                               ok |-> Valid(Cands[ci], NVoices), eff |-> st'])
               \/ Len(hist) = L /\ hist' = Append(hist, [q |-> "fin"]) /\ UNCHANGED st
\* the (constant) voices are printed once, from the initial state; each history is one line
WeightsEmit ==
   /\ Len(hist) = 0 => PrintT(<<"CASE", ToJson([kind |-> "wvoices", nvoices |-> NVoices,
        voices |-> [i \in 1..NVoices |-> Render(Doc([Fams[1] EXCEPT !.salt = Fams[1].salt + 6 * (i - 1)]))]])>>)
   /\ Len(hist) = L + 1 => PrintT(<<"CASE", ToJson([kind |-> "weights", nvoices |-> NVoices, hist |-> SubSeq(hist, 1, L)])>>)
\* invariant of the machine: effective weights are always the initial ones or a valid vector
WeightsValid == Mode = "weights" =>
   /\ st.dur = AvgW \/ (Len(st.dur) = NVoices /\ SumSeq(st.dur) = 8)
   /\ \A s \in 1..NStreamW : (st.par[s] = AvgW \/ (Len(st.par[s]) = NVoices /\ SumSeq(st.par[s]) = 8))
                          /\ (st.gv[s] = AvgW \/ (Len(st.gv[s]) = NVoices /\ SumSeq(st.gv[s]) = 8))

\* ---------------- mode "interp": effective weights chosen freely per quantity, expected parameters for a few labels
WTab2 == << <<8, 0>>, <<0, 8>>, <<4, 4>>, <<-4, 12>>, <<10, -2>>, <<3, 5>> >>
WTab3 == << <<8, 0, 0>>, <<0, 0, 8>>, <<2, 2, 4>>, <<-8, 8, 8>>, <<4, 3, 1>> >>
WTab1 == << <<8>> >>
WTab == IF NVoices = 1 THEN WTab1 ELSE IF NVoices = 2 THEN WTab2 ELSE WTab3
InterpLabels == <<1, 2, 4, 7, 11>>
InterpNext == /\ st = "init"
              /\ \E k \in 1..Len(Fams), a \in 1..Len(WTab), b \in 1..Len(WTab), c \in 1..Len(WTab) :
                    hist' = [fam |-> k, wd |-> a, wp |-> b, wg |-> c] /\ st' = "done"
InterpVoices == [i \in 1..NVoices |-> Doc([Fams[hist.fam] EXCEPT !.salt = Fams[hist.fam].salt + 6 * (i - 1)])]
InterpEff == LET ns == Len(InterpVoices[1].streams) IN
  [dur |-> WTab[hist.wd],
   par |-> [s \in 1..ns |-> WTab[((hist.wp + s - 2) % Len(WTab)) + 1]],      \* a different vector per stream
   gv  |-> [s \in 1..ns |-> WTab[((hist.wg + s - 1) % Len(WTab)) + 1]]]
\* non-vacuity: the voices of a set differ in every model (otherwise the weights of that quantity would be unobservable)
SiblingsDiffer(vs) == \A i \in 2..Len(vs) :
   /\ vs[i].dur.pdfs # vs[1].dur.pdfs
   /\ \A s \in 1..Len(vs[1].streams) : /\ (vs[i].streams[s].model.pdfs # vs[1].streams[s].model.pdfs \/ vs[1].streams[s].name = "LPF")
                                        /\ (vs[1].streams[s].usegv => vs[i].streams[s].gv.pdfs # vs[1].streams[s].gv.pdfs)
InterpEmit == st = "done" =>
  LET vs == InterpVoices  eff == InterpEff  v1 == vs[1]  ns == Len(v1.streams) IN
  SetOK(vs) /\ SiblingsDiffer(vs) /\
  PrintT(<<"CASE", ToJson([kind |-> "interp", voices |-> [i \in 1..NVoices |-> Render(vs[i])], eff |-> eff,
      labels |-> InterpLabels, nstate |-> v1.nstate,
      dur |-> [li \in 1..Len(InterpLabels) |-> DurParams(vs, eff, InterpLabels[li])],
      streams |-> [s \in 1..ns |->
         [vlen |-> v1.streams[s].vlen, nwin |-> Len(v1.streams[s].wins), msd |-> v1.streams[s].msd, usegv |-> v1.streams[s].usegv,
          par |-> [li \in 1..Len(InterpLabels) |-> [state \in 1..v1.nstate |-> StreamParams(vs, eff, s, state + 1, InterpLabels[li])]],
          gv |-> IF v1.streams[s].usegv THEN GvParams(vs, eff, s, InterpLabels[1]) ELSE <<>>,
          gvswitch |-> [li \in 1..Len(InterpLabels) |-> ~GvOffTable[InterpLabels[li]]]]]])>>)

Init == IF Mode = "weights" THEN WeightsInit ELSE st = "init" /\ hist = <<>>
Next == CASE Mode = "compat" -> CompatNext [] Mode = "weights" -> WeightsNext [] OTHER -> InterpNext
Spec == Init /\ [][Next]_vars
Emit == CASE Mode = "compat" -> CompatEmit [] Mode = "weights" -> WeightsEmit [] OTHER -> InterpEmit
====
