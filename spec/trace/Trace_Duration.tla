---- MODULE Trace_Duration ----
(* Trace validation for C08 / C09 (I->S).  Events (harness dur-record):
     pset{n, mq[]}                 a parameter sequence: n states, means in 1e-6 units (rounded)
     base{result[]}                DurationEstimator::create(1.0)
     dur{k, result[]}              create(k/1024) along an ascending sweep of k
     align{nstate, tin[[sc,ec]], result[], F, fperiod_ok}
                                   create_with_alignment on string-annotated labels; sc/ec are the exact
                                   candidate sets for round(time x rate/(fperiod x 1e7)) ([] = no time given,
                                   two values iff the exact quotient is within 1e-9 of a half-integer);
                                   F = synthesized samples / fperiod
   The laws are evaluated here in integer arithmetic; the harness supplies only observations. *)
EXTENDS Integers, Sequences, FiniteSets, TLC, Json, IOUtils
Rec == ndJsonDeserialize(IOEnv.TRACE)
Abs(x) == IF x < 0 THEN -x ELSE x
Max2(a, b) == IF a > b THEN a ELSE b
RECURSIVE Sum(_)
Sum(s) == IF s = <<>> THEN 0 ELSE Head(s) + Sum(Tail(s))
RoundHalfAway(a, b) == IF a >= 0 THEN (2 * a + b) \div (2 * b) ELSE -((2 * (-a) + b) \div (2 * b))
\* candidates for max(1, round(mean)) from the mean in 1e-6 units (both neighbours within 2e-6 of a tie)
RoundMean(mq) == LET f == mq \div 1000000  r == mq % 1000000 IN
                 IF Abs(r - 500000) <= 2 THEN {Max2(1, f), Max2(1, f + 1)} ELSE {Max2(1, RoundHalfAway(mq, 1000000))}

VARIABLES l, n, mq, base, prevTotal
vars == <<l, n, mq, base, prevTotal>>
IsEv(e) == l <= Len(Rec) /\ Rec[l].ev = e /\ l' = l + 1
Init == l = 1 /\ n = 0 /\ mq = <<>> /\ base = <<>> /\ prevTotal = -1

PSet == /\ IsEv("pset") /\ n' = Rec[l].n /\ mq' = Rec[l].mq /\ Len(Rec[l].mq) = Rec[l].n
        /\ base' = <<>> /\ prevTotal' = -1

\* speed 1: every state lasts max(1, round(mean)) frames
Base == /\ IsEv("base")
        /\ LET d == Rec[l].result IN
             /\ Len(d) = n
             /\ \A i \in 1..n : d[i] \in RoundMean(mq[i])
        /\ base' = Rec[l].result /\ UNCHANGED <<n, mq, prevTotal>>

\* other speeds: exact total, floor, monotone along the ascending sweep
Dur == /\ IsEv("dur") /\ base # <<>>
       /\ LET d == Rec[l].result  k == Rec[l].k  F1 == Sum(base)
              T == Max2(1, RoundHalfAway(F1 * 1024, k))
          IN /\ Len(d) = n
             /\ \A i \in 1..n : d[i] >= 1
             /\ IF k = 1024 THEN d = base ELSE Sum(d) = Max2(T, n)
             /\ (prevTotal >= 0 => Sum(d) <= prevTotal)
             /\ prevTotal' = Sum(d)
       /\ UNCHANGED <<n, mq, base>>

\* ---- alignment
EffEnd(tin, k) == IF tin[k][2] # <<>> THEN tin[k][2]
                  ELSE IF k < Len(tin) /\ tin[k+1][1] # <<>> THEN tin[k+1][1] ELSE <<>>
SeqSet(s) == {s[i] : i \in 1..Len(s)}
RECURSIVE AlignOK(_,_,_,_,_,_)
AlignOK(tin, ns, d, k, nextState, fc) ==
   IF k > Len(tin) THEN
        \* trailing labels without a known end keep their model durations
        /\ Len(d) = Len(tin) * ns
        /\ \A i \in nextState..Len(d) : d[i] \in RoundMean(mq[i])
   ELSE LET ends == EffEnd(tin, k) IN
        IF ends = <<>> THEN AlignOK(tin, ns, d, k + 1, nextState, fc)
        ELSE LET hi == k * ns  size == hi - nextState + 1 IN
             /\ Len(d) >= hi
             /\ LET g == SubSeq(d, nextState, hi) IN
                  /\ \A i \in 1..size : g[i] >= 1
                  /\ \E c \in SeqSet(ends) :
                        IF Max2(1, c - fc) > size THEN fc + Sum(g) = c ELSE \A i \in 1..size : g[i] = 1
                  /\ AlignOK(tin, ns, d, k + 1, hi + 1, fc + Sum(g))
AlignEv == /\ IsEv("align")
           /\ LET e == Rec[l] IN
                /\ Len(mq) = Len(e.tin) * e.nstate
                /\ AlignOK(e.tin, e.nstate, e.result, 1, 1, 0)
                /\ e.F = Sum(e.result)                  \* the synthesized length is fperiod x total frames
                /\ e.rem = 0
                \* ... whichever form the annotated lines are handed over in (slice, Vec<String>, reference to an array)
                /\ \A i \in 1..Len(e.form_lens) : e.form_lens[i] = e.F * e.fperiod
           /\ UNCHANGED <<n, mq, base, prevTotal>>

\* C17: time stamps in label strings are in 100 ns units: Labels::load_from_strings(rate, fperiod, ..).times() rounded to frames
\* must be one of the exact candidates for round(t x rate / (fperiod x 1e7)) (harness: exact 128-bit arithmetic), unknown stays unknown
UnitsEv == /\ IsEv("units")
           /\ LET e == Rec[l] IN
                /\ Len(e.got) = Len(e.cands)
                /\ \A i \in 1..Len(e.got) : IF e.cands[i] = <<>> THEN e.got[i] = -1 ELSE e.got[i] \in SeqSet(e.cands[i])
           /\ UNCHANGED <<n, mq, base, prevTotal>>
\* C08 through the engine: set_speed(s) stores s itself, and the synthesized length is max(round(F1 / s), states) frames
\* (candidates: exact quotient on the f64's binary value, both neighbours at a tie)
ESpeed == /\ IsEv("espeed")
          /\ LET e == Rec[l] IN
               /\ e.stored_exactly
               /\ (e.f1 > 0 => \E c \in SeqSet(e.cands) : e.frames = Max2(Max2(1, c), e.nstates))
          /\ UNCHANGED <<n, mq, base, prevTotal>>
Next == PSet \/ Base \/ Dur \/ AlignEv \/ UnitsEv \/ ESpeed
Spec == Init /\ [][Next]_vars
Accepted == IF TLCGet("stats").diameter - 1 = Len(Rec) THEN TRUE
            ELSE Print(<<"REJECT at", TLCGet("stats").diameter>>, FALSE)
====
