CONSTANTS Mode = "lsp"  Orders <- LspOrdersQ  Salts = {0, 1}  Alphas <- AlphasQ  Rates <- RatesQ  Betas = {0}  Stages = {1, 2, 3}
SPECIFICATION Spec
INVARIANTS Emit Pre
CHECK_DEADLOCK FALSE
