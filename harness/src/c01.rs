//! C01: synthesis is total and frame-exact.
//!  replay: Gen_Pipeline cases (rendered voice family x labels x conditions).
//!  record: bundled voice (+ perturbed copies), random utterances and conditions -> Trace_Laws `synth` events.
use crate::c04::parse_labels;
use crate::eng::*;
use crate::util::*;
use crate::voicegen;
use jbonsai::duration::DurationEstimator;
use jbonsai::model::Models;
use jbonsai::Engine;
use jlabel::Label;
use serde_json::{json, Value};
use std::collections::HashMap;

const NODATA: f64 = -1e10;

pub fn fam_key(f: &Value) -> String {
    serde_json::to_string(f).unwrap()
}

/// Load every `voice` case once.
pub fn load_family(cases: &[Value], tag: &str) -> HashMap<String, Result<Engine, String>> {
    let voices: Vec<&Value> = cases.iter().filter(|c| c["kind"] == "voice").collect();
    let loaded = par_map(&voices, |i, c| {
        let path = voicegen::scratch(&voicegen::render(&c["voice"]), &format!("{}_{}", tag, i));
        let r = guarded(|| Engine::load(&[&path]).map_err(|e| e.to_string()));
        std::fs::remove_file(&path).ok();
        let r = match r {
            Ok(Ok(e)) => Ok(e),
            Ok(Err(e)) => Err(format!("error: {}", e)),
            Err(p) => Err(format!("panic: {}", p)),
        };
        (fam_key(&c["fam"]), r)
    });
    loaded.into_iter().collect()
}

pub enum Form {
    Labels(Vec<Label>),
    Lines(Vec<String>, String),
}

pub fn synth_form(engine: &Engine, form: &Form) -> Result<Vec<f64>, String> {
    match form {
        Form::Labels(l) => engine.synthesize(l.clone()).map_err(|e| e.to_string()),
        Form::Lines(lines, kind) => match kind.as_str() {
            "vec" => engine.synthesize(lines.clone()).map_err(|e| e.to_string()),
            "array" => {
                let r: Vec<&str> = lines.iter().map(|s| s.as_str()).collect();
                match r.len() {
                    0 => engine.synthesize(&[] as &[&str; 0]),
                    1 => engine.synthesize(&[r[0]]),
                    2 => engine.synthesize(&[r[0], r[1]]),
                    3 => engine.synthesize(&[r[0], r[1], r[2]]),
                    _ => engine.synthesize(&r[..]),
                }
                .map_err(|e| e.to_string())
            }
            _ => engine.synthesize(&lines[..]).map_err(|e| e.to_string()),
        },
    }
}

/// Apply the specification's condition record to an engine.
pub fn apply_cond(engine: &mut Engine, c: &Value) {
    let ns = engine.voices.global_metadata().num_streams;
    let cd = &mut engine.condition;
    cd.set_speed(vi(&c["p"]) as f64 / vi(&c["q"]) as f64);
    cd.set_phoneme_alignment_flag(vb(&c["align"]));
    cd.set_msd_threshold(1, vi(&c["thr8"]) as f64 / 8.0);
    cd.set_beta(vi(&c["beta8"]) as f64 / 8.0);
    cd.set_additional_half_tone(vi(&c["ht"]) as f64);
    cd.set_volume(vi(&c["vol"]) as f64);
    for s in 0..ns {
        cd.set_gv_weight(s, vi(&c["gvw4"]) as f64 / 4.0);
    }
    if vi(&c["fp"]) > 0 {
        cd.set_fperiod(vu(&c["fp"]));
    }
    if vi(&c["rate"]) > 0 {
        cd.set_sampling_frequency(vu(&c["rate"]));
    }
}

pub fn make_form(engine: &Engine, c: &Value, labels: &[Label], texts: &[String]) -> Form {
    let form = vs(&c["form"]);
    if form == "labels" {
        return Form::Labels(labels.to_vec());
    }
    let fp = engine.condition.get_fperiod() as f64;
    let rate = engine.condition.get_sampling_frequency() as f64;
    let ends = va(&c["ends"]);
    let lines: Vec<String> = texts
        .iter()
        .enumerate()
        .map(|(i, t)| {
            if vb(&c["align"]) && i < ends.len() {
                let e = vi(&ends[i]);
                if e >= 0 {
                    let units = e as f64 / 4.0 * fp * 1e7 / rate;
                    return format!("-1 {:.6} {}", units, t);
                } else if i % 2 == 0 {
                    return format!("-1 -1 {}", t);
                }
            }
            t.clone()
        })
        .collect();
    Form::Lines(lines, form.to_string())
}

fn run_case(engine0: &Engine, case: &Value, table: &[Label], texts: &[String]) -> Option<(String, String)> {
    let c = &case["cond"];
    let mut engine = engine0.clone();
    apply_cond(&mut engine, c);
    let idx: Vec<usize> = va(&case["labels"]).iter().map(|l| vu(l) - 1).collect();
    let labels: Vec<Label> = idx.iter().map(|i| table[*i].clone()).collect();
    let ltexts: Vec<String> = idx.iter().map(|i| texts[*i].clone()).collect();
    let form = make_form(&engine, c, &labels, &ltexts);
    let f = vu(&case["F"]);
    let fp = engine.condition.get_fperiod();
    let streams = engine.voices.global_metadata().num_streams;
    let stage = if vi(&case["fam"]["stage"]) > 0 { "lsp" } else { "mcp" };
    let cls = format!("streams={}:{}:gv={}", streams, stage, case["fam"]["gv"]);
    let w = match guarded(|| synth_form(&engine, &form)) {
        Err(p) => return Some((format!("synth:panic:{}:{}", cls, p), format!("synthesize panicked: {}", p))),
        Ok(Err(e)) => return Some((format!("synth:error:{}", cls), format!("synthesize returned an error on well-formed labels: {}", e))),
        Ok(Ok(w)) => w,
    };
    if w.len() != fp * f {
        return Some((format!("synth:length:{}", cls), format!("{} samples, expected fperiod {} x F {} = {}", w.len(), fp, f, fp * f)));
    }
    if let Some(k) = w.iter().position(|x| !x.is_finite()) {
        return Some((format!("synth:nonfinite:{}", cls), format!("sample {} of {} is {} (generated voices are inside the stable range)", k, w.len(), w[k])));
    }
    // public duration path
    let r = guarded(|| {
        let m = Models::new(&labels, &engine.voices, engine.condition.get_interporation_weight());
        let est = DurationEstimator::new(m.duration(), m.nstate());
        est.create(engine.condition.get_speed())
    });
    if !vb(&c["align"]) {
        match r {
            Err(p) => return Some((format!("dur:panic:{}", p), p)),
            Ok(d) => {
                if !va(&case["durs"]).iter().any(|s| va(s).iter().map(vu).collect::<Vec<_>>() == d) {
                    return Some(("dur:value".into(), format!("durations {:?} not in the specification's set {}", d, case["durs"])));
                }
            }
        }
    }
    // trajectories (hook H1)
    let g = match guarded(|| match &form {
        Form::Labels(l) => engine.generator(l.clone()),
        Form::Lines(l, _) => engine.generator(&l[..]),
    }) {
        Err(p) => return Some((format!("generator:panic:{}", p), p)),
        Ok(Err(e)) => return Some(("generator:error".into(), e.to_string())),
        Ok(Ok(g)) => g,
    };
    let (sp, lf0, lpf) = g.verif_trajectories();
    if sp.len() != f || lf0.len() != f || lpf.len() != f {
        return Some(("traj:length".into(), format!("trajectory lengths {}/{}/{} expected {}", sp.len(), lf0.len(), lpf.len(), f)));
    }
    if vb(&case["unique"]) {
        let mask: Vec<bool> = va(&case["mask"]).iter().map(vb).collect();
        for t in 0..f {
            let voiced = lf0[t][0] != NODATA;
            if voiced != mask[t] {
                return Some(("traj:voicing".into(), format!("frame {}: log-F0 {} but the specification says voiced={} (threshold {}/8)", t, lf0[t][0], mask[t], c["thr8"])));
            }
        }
    }
    None
}

pub fn replay(cases_path: &str, out_path: &str, labels_path: &str) {
    let cases = read_jsonl(cases_path);
    let table = parse_labels(labels_path);
    let texts: Vec<String> = {
        let v: Value = serde_json::from_str(&std::fs::read_to_string(labels_path).unwrap()).unwrap();
        va(&v).iter().map(|s| vs(s).to_string()).collect()
    };
    let fam = load_family(&cases, "c01");
    let runs: Vec<&Value> = cases.iter().filter(|c| c["kind"] == "run").collect();
    let results = par_map(&runs, |_, case| match fam.get(&fam_key(&case["fam"])) {
        None => Some(("nofamily".to_string(), "voice case missing".to_string())),
        Some(Err(e)) => Some((format!("load:{}", e), format!("well-formed rendered voice did not load: {}", e))),
        Some(Ok(engine)) => match guarded(|| run_case(engine, case, &table, &texts)) {
            Ok(r) => r,
            Err(p) => Some((format!("harness:panic:{}", p), p)),
        },
    });
    let mut out = Out::create(out_path);
    let mut failed = 0;
    for (i, r) in results.into_iter().enumerate() {
        if let Some((key, msg)) = r {
            failed += 1;
            out.line(&json!({"case": i, "key": key, "msg": msg, "input": runs[i]}));
        }
    }
    out.line(&json!({"summary": {"cases": runs.len(), "failed": failed, "voices": fam.len()}}));
    out.finish();
}

// ------------------------------------------------------------------ recorder (I->S)
use jbonsai::label::Labels;

/// A label whose fields are random values that still parse (no-panic clause).
fn fuzz_label(rng: &mut Rng, corpus: &Corpus) -> String {
    let ph = ["a", "i", "u", "e", "o", "N", "cl", "pau", "sil", "k", "ky", "sh", "ts", "xx", "A", "I", "U", "v", "w", "zz", "q"];
    let p = |rng: &mut Rng| ph[rng.below(ph.len())].to_string();
    let num = |rng: &mut Rng, lo: i64, hi: i64| -> String {
        if rng.chance(0.12) { "xx".into() } else { rng.range(lo, hi).to_string() }
    };
    let base = &corpus.sections[rng.below(corpus.sections.len())];
    let mut secs = base.clone();
    secs[0] = format!("{}^{}-{}+{}={}", p(rng), p(rng), p(rng), p(rng), p(rng));
    if rng.chance(0.7) {
        secs[1] = format!("{}+{}+{}", rng.range(-99, 99), rng.range(1, 99), rng.range(1, 99));
    }
    if rng.chance(0.5) {
        secs[6] = format!("{}_{}#{}_xx@{}_{}|{}_{}", num(rng, 1, 99), num(rng, 0, 99), num(rng, 0, 1), num(rng, 1, 99), num(rng, 1, 99), num(rng, 1, 199), num(rng, 1, 199));
    }
    if rng.chance(0.5) {
        secs[11] = format!("{}+{}-{}", rng.range(1, 99), rng.range(1, 199), rng.range(1, 999));
    }
    if rng.chance(0.3) {
        secs[8] = format!("{}_{}", num(rng, 1, 99), num(rng, 1, 199));
    }
    join_sections(&secs)
}

fn measure(w: &[f64]) -> (i64, i64) {
    let nf = w.iter().position(|x| !x.is_finite()).map(|k| k as i64).unwrap_or(-1);
    let upto = if nf >= 0 { nf as usize } else { w.len() };
    let mx = w[..upto].iter().fold(0.0f64, |a, b| a.max(b.abs()));
    let growth = if mx > 0.0 { mx.log10().floor() as i64 } else { -400 };
    (nf, growth)
}

/// max over a 128-point grid of warped frequencies of |sum_{m>=1} c_m cos(m theta)| (trusted measurement)
fn shape_max(c: &[f64]) -> f64 {
    let mut best = 0.0f64;
    for k in 0..=128 {
        let th = std::f64::consts::PI * k as f64 / 128.0;
        let s: f64 = c.iter().enumerate().skip(1).map(|(m, x)| x * (m as f64 * th).cos()).sum();
        best = best.max(s.abs());
    }
    best
}

pub fn record(seed: u64, n: usize, max_labels: usize, out_path: &str, paths: &[String]) {
    let corpus = Corpus::load();
    let engines: Vec<Engine> = paths.iter().map(|p| Engine::load(&[p]).unwrap_or_else(|e| die(&format!("{}: {}", p, e)))).collect();
    let its: Vec<usize> = (0..n).collect();
    let events = par_map(&its, |_, it| {
        let it = *it;
        let mut rng = Rng::new(seed ^ 0xc01 ^ ((it as u64) << 20));
        let mut evs: Vec<Value> = Vec::new();
        let mut engine = engines[rng.below(engines.len())].clone();
        let cond = random_condition(&mut engine, &mut rng, true);
        let nl = if it % 25 == 0 { 0 } else { 1 + rng.below(max_labels) };
        let lines = corpus.utterance(&mut rng, nl);
        let align = rng.chance(0.25);
        engine.condition.set_phoneme_alignment_flag(align);
        let fp = engine.condition.get_fperiod();
        let rate = engine.condition.get_sampling_frequency();
        // optional time stamps (used only when alignment is on)
        let lines: Vec<String> = if rng.chance(0.4) {
            let mut t: u64 = 0;
            lines.iter().map(|l| {
                let d = 300_000 + rng.below(2_500_000) as u64;
                let s = format!("{} {} {}", t, t + d, l);
                t += d;
                if rng.chance(0.15) { l.clone() } else { s }
            }).collect()
        } else {
            lines
        };
        let beta = engine.condition.get_beta();
        let r = guarded(|| -> Result<Value, String> {
            let labels = Labels::load_from_strings(rate, fp, &lines).map_err(|e| format!("labels: {}", e))?;
            let m = Models::new(labels.labels(), &engine.voices, engine.condition.get_interporation_weight());
            let est = DurationEstimator::new(m.duration(), m.nstate());
            let dur = if align { est.create_with_alignment(labels.times()) } else { est.create(engine.condition.get_speed()) };
            let g = engine.generator(&lines[..]).map_err(|e| format!("generator: {}", e))?;
            let (sp, _, _) = g.verif_trajectories();
            let wit = sp.iter().map(|c| shape_max(c) * (1.0 + beta) * 1.05).fold(0.0f64, f64::max);
            let w = engine.synthesize(&lines[..]).map_err(|e| format!("synthesize: {}", e))?;
            let (nf, growth) = measure(&w);
            Ok(json!({"ev": "synth", "outcome": "ok", "nl": labels.labels().len(), "nstate": m.nstate(), "dur": dur,
                "frames": w.len() / fp, "rem": w.len() % fp, "fperiod": fp, "nf": nf, "growth": growth,
                "witness": (wit * 1000.0).ceil().min(2.0e9) as i64, "cond": cond, "align": align}))
        });
        let blank = |o: &str, m: String| json!({"ev": "synth", "outcome": o, "msg": m, "cond": cond, "lines": lines, "nl": 0, "nstate": 0, "dur": [], "frames": 0, "rem": 0, "nf": -1, "growth": 0, "witness": 0});
        match r {
            Ok(Ok(v)) => evs.push(v),
            Ok(Err(e)) => evs.push(blank("err", e)),
            Err(p) => evs.push(blank("panic", p)),
        }
        // structurally random labels: must not panic
        if it % 2 == 0 {
            let k = 1 + rng.below(4);
            let fl: Vec<String> = (0..k).map(|_| fuzz_label(&mut rng, &corpus)).filter(|l| l.parse::<Label>().is_ok()).collect();
            if !fl.is_empty() {
                let e2 = engines[0].clone();
                let outcome = match guarded(|| e2.synthesize(&fl[..])) {
                    Ok(Ok(_)) => "ok".to_string(),
                    Ok(Err(e)) => format!("err: {}", e),
                    Err(p) => format!("panic: {}", p),
                };
                evs.push(json!({"ev": "fuzz", "outcome": outcome, "lines": fl}));
            }
        }
        evs
    });
    let mut out = Out::create(out_path);
    for evs in events {
        for e in evs {
            out.line(&e);
        }
    }
    out.finish();
}
